/* C21 (throttle clause), E2: register_incoming_announce / record_announce_failure / announce_sender_locked on the real code with
   the container models.  One step from EVERY state that satisfies the representation invariant, symbolic clock and
   (sanitised) configuration: the invariant is preserved, so the clauses hold for timed sequences of any length.
   Bounded only by the capacity the invariant itself imposes on the history (burst limit <= CAP). */
#include "throttle.c"
#include "common.h"
#ifndef CAP
#define CAP 6
#endif
#define NS 1000000000l
static void mk_history(vec_i64 *h, uint64_t n)
{
  h->p = malloc(sizeof(int64_t) * (CAP + 2)); h->cap = CAP + 2; h->n = n;
  __CPROVER_assume(h->p != 0);
}
/* representation invariant of one peer's accepted-announce history */
static _Bool inv_history(const vec_i64 *h, int64_t min_ns, uint64_t limit, int64_t now)
{
  if (h->n > limit) return 0;
  for (uint64_t k = 0; k < CAP; ++k) {
    if (k < h->n && (h->p[k] < 0 || h->p[k] > now)) return 0;
    if (k + 1 < h->n && (h->p[k + 1] < 0 || h->p[k + 1] > now || h->p[k + 1] - h->p[k] < min_ns)) return 0;
  }
  return 1;
}
static void sane_config(Config *c)
{ /* what sanitize_config guarantees (C02 contract) plus an upper bound that keeps seconds -> nanoseconds inside int64 */
  __CPROVER_assume(c->announce_min_interval >= 1 && c->announce_min_interval <= 1048576l);
  __CPROVER_assume(c->announce_burst_limit >= 1 && c->announce_burst_limit <= CAP);
  __CPROVER_assume(c->announce_burst_window >= c->announce_min_interval && c->announce_burst_window <= 1048576l);
}
void h_register(void)
{
  Node *in_node = malloc(sizeof(Node)); arr_u8_32 in_peer; int64_t in_now; uint64_t in_n;
  __CPROVER_assume(in_node != 0 && in_now >= 0 && in_now <= 4000000000000000000l && in_n <= CAP);
  sane_config(&in_node->config_);
  int64_t min_ns = in_node->config_.announce_min_interval * NS, win_ns = in_node->config_.announce_burst_window * NS;
  uint64_t limit = in_node->config_.announce_burst_limit;
  in_node->peer_announce_history_.n = 1;
  vec_i64 *h = &in_node->peer_announce_history_.e[0].second;
  mk_history(h, in_n);
  __CPROVER_assume(inv_history(h, min_ns, limit, in_now));
  _Bool had_last = h->n > 0; int64_t old_last = had_last ? h->p[h->n - 1] : 0; uint64_t old_n = h->n;
  /* how many earlier accepted announces lie inside the window that ends now */
  uint64_t in_window = 0;
  for (uint64_t k = 0; k < CAP; ++k) if (k < old_n && h->p[k] >= in_now - win_ns) in_window++;
  _Bool ok = Node__register_incoming_announce(in_node, &in_peer, in_now);
  vec_i64 *h2 = &in_node->peer_announce_history_.e[0].second;
  __CPROVER_assert(in_node->peer_announce_history_.n == 1 && inv_history(h2, min_ns, limit, in_now), "the history invariant is preserved (spacing >= min interval, size <= burst limit)");
  if (ok) {
    __CPROVER_assert(h2->n >= 1 && h2->p[h2->n - 1] == in_now, "an accepted announce is recorded at the current time");
    /* "at least the minimum interval apart" is the spacing clause of the invariant just re-established with `now` as last entry
       (an earlier last entry that was trimmed is older than the window, which is >= the minimum interval) */
    __CPROVER_assert(in_window + 1 <= limit, "never more than the burst limit inside one window");
  } else {
    __CPROVER_assert((had_last && in_now - old_last < min_ns) || in_window >= limit, "an announce is refused only for spacing or burst reasons");
  }
  CANARY_POINT();
}
void h_failure(void)
{ /* three rejections within 120 s lock the peer out for 180 s */
  Node *in_node = malloc(sizeof(Node)); arr_u8_32 in_peer; int64_t in_now; uint64_t in_n; _Bool in_locked; int64_t in_until;
  __CPROVER_assume(in_node != 0 && in_now >= 0 && in_now <= 4000000000000000000l && in_n <= 2);
  in_node->peer_announce_failure_history_.n = 1;
  vec_i64 *h = &in_node->peer_announce_failure_history_.e[0].second;
  mk_history(h, in_n);
  for (uint64_t k = 0; k < 2; ++k) if (k < in_n) __CPROVER_assume(h->p[k] >= 0 && h->p[k] <= in_now && (k == 0 || h->p[k - 1] <= h->p[k]));
  in_node->peer_announce_lockouts_.n = in_locked ? 1 : 0;
  in_node->peer_announce_lockouts_.e[0].second = in_until;
  __CPROVER_assume(in_until >= 0 && in_until <= 4000000000000000000l);
  uint64_t recent = 0;      /* earlier failures inside the 120 s window */
  for (uint64_t k = 0; k < 2; ++k) if (k < in_n && in_now - h->p[k] <= 120 * NS) recent++;
  _Bool active_lock = in_locked && in_until > in_now;
  Node__record_announce_failure(in_node, &in_peer, in_now);
  _Bool locked_after = Node__announce_sender_locked(in_node, &in_peer, in_now);
  if (active_lock) {
    __CPROVER_assert(locked_after && in_node->peer_announce_lockouts_.e[0].second == in_until, "an active lock-out is neither shortened nor extended");
  } else if (recent + 1 >= 3) {
    __CPROVER_assert(locked_after && in_node->peer_announce_lockouts_.e[0].second == in_now + 180 * NS, "the third rejection within 120 s locks the peer out for 180 s");
  } else {
    __CPROVER_assert(!locked_after, "fewer than three rejections within 120 s do not lock the peer out");
  }
  CANARY_POINT();
}
void h_locked(void)
{
  Node *in_node = malloc(sizeof(Node)); arr_u8_32 in_peer; int64_t in_now; _Bool in_locked; int64_t in_until;
  __CPROVER_assume(in_node != 0);
  in_node->peer_announce_lockouts_.n = in_locked ? 1 : 0;
  in_node->peer_announce_lockouts_.e[0].second = in_until;
  _Bool r = Node__announce_sender_locked(in_node, &in_peer, in_now);
  __CPROVER_assert(r == (in_locked && in_until > in_now), "a sender is locked exactly until its lock-out deadline");
  CANARY_POINT();
}
