/* C14 (size limit, E3 skeletons of SessionManager::send and SessionManager::receive_loop): on every path a frame is written to the socket
   only after the payload size was compared with the 1 MiB limit and found not greater; on every path of every iteration of the receive
   loop a buffer of the announced length is allocated only after that length was compared with the limit and found not greater -- an
   oversized announcement leaves the loop (ends the session) before anything is buffered. */
#include "session_gate.c"
#include "common.h"
void h_send_gate(void) { g_send_size_ok = 0; skel_network__SessionManager__send(); CANARY_POINT(); }
void h_recv_gate(void) { g_recv_size_ok = 0; g_length_tag = 0; skel_network__SessionManager__receive_loop(); CANARY_POINT(); }
