// native replay for C10 (split): runs the REAL Shamir::split on the counterexample (threshold, share_count) with an address
// space limit and an alarm, and re-checks the property clause natively: split returns share_count shares with indices
// 1..share_count, or throws invalid_argument exactly for t = 0, n = 0 or t > n.  A hang (alarm), bad_alloc or any other
// outcome is the reproduced violation.
// args: threshold share_count
#include "src/crypto/Shamir.cpp"
#include <cstdio>
#include <string>
#include <vector>
#include <cstdlib>
#include <csignal>
#include <new>
#include <sys/resource.h>
#include <unistd.h>
static void on_alarm(int) { const char m[] = "REPRODUCED: split did not terminate within 10 s\n"; (void)!write(1, m, sizeof m - 1); _exit(1); }
// combine mode: args "combine threshold count index0 value0 index1 value1 ..." -- shares whose value is (value_k, 0, ..., 0); the
// REAL Shamir::combine must raise invalid_argument when count < threshold or two of the first `threshold` shares have the same
// index, and must succeed otherwise
static int replay_combine(int argc, char** argv) {
    if (argc < 4) return 2;
    const auto t = static_cast<std::uint8_t>(std::strtoul(argv[2], nullptr, 0));
    const auto n = std::strtoul(argv[3], nullptr, 0);
    std::vector<ephemeralnet::crypto::ShamirShare> shares;
    for (unsigned long k = 0; k < n && 5 + 2 * k < static_cast<unsigned long>(argc); k++) {
        ephemeralnet::crypto::ShamirShare s{};
        s.index = static_cast<std::uint8_t>(std::strtoul(argv[4 + 2 * k], nullptr, 0));
        s.value[0] = static_cast<std::uint8_t>(std::strtoul(argv[5 + 2 * k], nullptr, 0));
        shares.push_back(s);
    }
    bool dup = false;
    for (std::size_t i = 0; i < shares.size() && i < t; i++) for (std::size_t j = 0; j < i; j++) dup = dup || shares[i].index == shares[j].index;
    const bool must_throw = shares.size() < t || dup;
    std::printf("combine(threshold=%u, %zu shares:", t, shares.size());
    for (const auto& s : shares) std::printf(" (index %u, value %u 0...)", s.index, s.value[0]);
    std::printf(") ");
    try {
        const auto secret = ephemeralnet::crypto::Shamir::combine(shares, t);
        if (must_throw) { std::printf("REPRODUCED: returned a 'secret' starting %u although %s\n", secret[0], dup ? "two of the shares used have the same index" : "there are fewer than threshold shares"); return 1; }
        std::printf("returned a secret\n");
        return 0;
    } catch (const std::invalid_argument& e) {
        if (!must_throw) { std::printf("REPRODUCED: raised invalid_argument (%s) for enough shares with distinct indices\n", e.what()); return 1; }
        std::printf("raised invalid_argument (%s)\n", e.what());
        return 0;
    } catch (const std::exception& e) {
        std::printf("REPRODUCED: raised %s, not invalid_argument\n", e.what());
        return 1;
    }
}
int main(int argc, char** argv) {
    if (argc >= 2 && std::string(argv[1]) == "combine") return replay_combine(argc, argv);
    if (argc < 3) return 2;
    const auto t = static_cast<std::uint8_t>(std::strtoul(argv[1], nullptr, 0));
    const auto n = static_cast<std::uint8_t>(std::strtoul(argv[2], nullptr, 0));
    rlimit rl{1ull << 30, 1ull << 30};
    setrlimit(RLIMIT_AS, &rl);
    std::signal(SIGALRM, on_alarm);
    alarm(10);
    std::array<std::uint8_t, 32> secret{};
    for (int i = 0; i < 32; i++) secret[i] = static_cast<std::uint8_t>(i * 7 + 1);
    const bool bad = t == 0 || n == 0 || t > n;
    try {
        const auto shares = ephemeralnet::crypto::Shamir::split(secret, t, n);
        if (bad) { std::printf("REPRODUCED: split(t=%u, n=%u) succeeded although the parameters are invalid\n", t, n); return 1; }
        if (shares.size() != n) { std::printf("REPRODUCED: split(t=%u, n=%u) returned %zu shares\n", t, n, shares.size()); return 1; }
        for (std::size_t i = 0; i < shares.size(); i++)
            if (shares[i].index != i + 1) { std::printf("REPRODUCED: share %zu has index %u\n", i, shares[i].index); return 1; }
        std::printf("split(t=%u, n=%u) returned %zu shares with indices 1..n\n", t, n, shares.size());
        return 0;
    } catch (const std::invalid_argument& e) {
        if (!bad) { std::printf("REPRODUCED: split(t=%u, n=%u) threw invalid_argument: %s\n", t, n, e.what()); return 1; }
        std::printf("split(t=%u, n=%u) rejected with invalid_argument\n", t, n);
        return 0;
    } catch (const std::bad_alloc&) {
        std::printf("REPRODUCED: split(t=%u, n=%u) never leaves the share-index loop: memory exhausted (bad_alloc under a 1 GiB limit)\n", t, n);
        return 1;
    }
}
