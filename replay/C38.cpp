// native replay for C38: the REAL JsonParser (anonymous namespace of src/core/UpdateCheck.cpp) on the counterexample text
// (hex-encoded argv[1], a JSON string literal).  Prints "OK <hex of the decoded value>" or "ERR <message>".
#include "src/core/UpdateCheck.cpp"
#include <cstdio>
#include <string>
int main(int argc, char** argv) {
    if (argc < 2) return 2;
    const std::string h = argv[1];
    std::string text;
    for (std::size_t i = 0; i + 1 < h.size(); i += 2) text.push_back(static_cast<char>(std::stoi(h.substr(i, 2), nullptr, 16)));
    try {
        JsonParser parser{std::string_view{text}};
        const auto v = parser.parse();
        if (!v.is_string()) { std::printf("ERR not a string\n"); return 0; }
        std::printf("OK ");
        for (unsigned char c : v.string_value) std::printf("%02x", c);
        std::printf("\n");
    } catch (const std::exception& e) {
        std::printf("ERR %s\n", e.what());
    }
    return 0;
}
