from vdriver import Group
META = {'level': 'proof'}
NAMES = {0: 'unknown-type', 1: 'announce', 2: 'request', 3: 'chunk', 4: 'acknowledge', 5: 'transport_handshake', 6: 'handshake_ack'}
def groups(tier):
    G = []
    def grp(name, defs, what, checks=None):
        G.append(Group(name, 'message', 'C16/decode.c', entry='h_decode', defines=defs,
                       replace=['str_from_n', 'vec_u8_assign_range'], unwind=34, kind='unbounded', timeout=900,
                       backend=['cadical', 'sat'], checks=checks,
                       clause='for every byte string of any length whose type byte is ' + what + ': decode is memory-safe, raises nothing, '
                              'and every field of an accepted message equals the input bytes at its wire offset (flag bytes included, '
                              'so re-encoding reproduces a prefix of the input)'))
    for t in (0, 2, 3, 4, 5, 6):
        grp(f'decode.{NAMES[t]}', [f'ONLY_TYPE={t}'], NAMES[t] if t else 'not a known type (or the input is shorter than 2 bytes)')
    # the announce case is split once more over the version byte (PoW nonce present from version 3) and into its
    # safety and verbatim halves: the undivided formula takes the SAT back ends 5 to 10 minutes
    for pw in (0, 1):
        for half in ('safety', 'verbatim'):
            grp(f'decode.announce.{"v3+" if pw else "v1-2"}.{half}', ['ONLY_TYPE=1', f'ONLY_POW={pw}'] + (['SAFETY_ONLY'] if half == 'safety' else []),
                f'announce, version {">= 3" if pw else "< 3"} ({half} half)', checks=[] if half == 'verbatim' else None)
    G.append(Group('decode_signed.total', 'message', 'C13/signed.c', entry='h_decode_signed',
                   replace=['crypto__HmacSha256__verify', 'protocol__decode', 'crypto__HmacSha256__compute', 'protocol__encode'], unwind=40, kind='unbounded',
                   clause='decode_signed: span arithmetic and memory safety for every buffer and key length; no exception'))
    return G


def replay(group, trace):
    """native search with the REAL decode/encode under AddressSanitizer, restricted to the failing case's type byte: the
    counterexample of the unbounded proof lives in a fresh object of symbolic size and has no concrete bytes of its own"""
    import sys, os, re
    root = os.path.dirname(os.path.dirname(os.path.abspath(__file__)))
    sys.path.insert(0, os.path.join(root, 'replay'))
    import replaylib as R
    exe = R.build('C16.cpp', ['src/protocol/Message.cpp', 'src/crypto/HmacSha256.cpp', 'src/crypto/Sha256.cpp'], extra=['-fsanitize=address', '-g'])
    d = dict(x.split('=') for x in group.defines if '=' in x)
    t = d.get('ONLY_TYPE', '-1')
    seed = int(os.environ.get('VERIF_SEED', '0') or 0)
    rc, out = R.run(exe, [seed, 200000, t if t != '0' else 7], timeout=120)
    lines = out.strip().splitlines()
    if rc == 0:
        return False, lines[-1] if lines else 'no failing input'
    asan = 'AddressSanitizer' in out
    why = ('AddressSanitizer: ' + re.sub(r'\s+', ' ', out[out.index('AddressSanitizer'):])[:300]) if asan else ' | '.join(lines[-2:])
    return True, why
