/* C20: on the control-flow skeleton of Node::handle_transport_handshake / Node::perform_handshake (value tags: claimed peer,
   offered key, offered nonce, the stored record's key and nonce): acceptance only with a valid key and a valid PoW for the
   offered values -- or an unexpired stored success whose recorded key and nonce were compared EQUAL to the offered ones. */
#include "handshake.c"
#include "common.h"
void h_admit(void)
{
  g_key_ok = 0; g_pow_ok = 0; g_same_key = 0; g_same_nonce = 0; g_penalised = 0; g_session_writes = 0; g_ph_result = 0;
  g_cached_success = nondet_bool();
  g_stored_success = g_cached_success; g_stored_valid = 1; g_local_success = 0; g_local_valid = 0;   /* invariant assumed on entry */
  skel_Node__handle_transport_handshake();
  CANARY_POINT();
}
void h_perform(void)
{
  g_key_ok = 0; g_pow_ok = 0; g_same_key = 0; g_same_nonce = 0; g_penalised = 0; g_session_writes = 0; g_ph_result = 0;
  g_cached_success = nondet_bool();
  g_stored_success = g_cached_success; g_stored_valid = 1; g_local_success = 0; g_local_valid = 0;   /* invariant assumed on entry */
  skel_Node__perform_handshake();
  CANARY_POINT();
}
