/* C27 (bounded): constant_time_equal(a, b) == (a == b) for all strings of length <= 24, whatever the internal structure of the
   comparison is (stand-in for the unbounded loop-contract proof when the loop structure changes). */
#include "ctrl_token_b.c"
#include "common.h"
#define MAXLEN 24
void h_cte_bounded(void)
{
  char in_a[MAXLEN + 8], in_b[MAXLEN + 8]; uint64_t in_na, in_nb;
  __CPROVER_assume(in_na <= MAXLEN && in_nb <= MAXLEN);
  str a = {in_a, in_na, in_na}, b = {in_b, in_nb, in_nb};
  __exc = 0;
  _Bool r = daemon__constant_time_equal(&a, &b);
  _Bool eq = in_na == in_nb;
  for (uint64_t k = 0; k < MAXLEN; ++k) if (k < in_na && k < in_nb && in_a[k] != in_b[k]) eq = 0;
  __CPROVER_assert(__exc == 0 && r == eq, "constant_time_equal answers true exactly for equal strings (length <= 24)");
  CANARY_POINT();
}
