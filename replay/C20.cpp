// native replay for C20: the REAL Node::perform_handshake.  A first handshake for peer A with a valid key and a valid PoW nonce
// succeeds; within the cooldown a second one for the SAME claimed peer arrives with a DIFFERENT valid key and a nonce that
// is NOT a valid PoW for (A, this node, that key).  exit 1 = the second handshake was accepted.
#include "src/core/Node.cpp"
#include <cstdio>
#include <thread>
using namespace ephemeralnet;
int main() {
    Config config{};
    config.handshake_pow_difficulty = 8;
    config.identity_seed = 11u;
    PeerId self{}; self[0] = 0xB0;
    Node node(self, config);
    PeerId claimed{}; claimed[0] = 0xA0;
    const std::uint32_t key1 = network::KeyExchange::compute_public(123457u);
    std::uint64_t nonce1 = 0;
    if (!compute_handshake_pow(claimed, self, key1, node.config().handshake_pow_difficulty, nonce1)) { std::printf("could not solve the PoW\n"); return 2; }
    if (!node.perform_handshake(claimed, key1, nonce1)) { std::printf("the valid handshake was refused\n"); return 2; }
    const auto before = node.session_key(claimed);
    const std::uint32_t key2 = network::KeyExchange::compute_public(7654321u);
    const int d = node.config().handshake_pow_difficulty;
    std::uint64_t bad2 = 1, bad1 = nonce1 + 1;
    while (handshake_pow_valid(claimed, self, key2, bad2, d)) ++bad2;   // NOT a valid PoW for the other key
    while (handshake_pow_valid(claimed, self, key1, bad1, d)) ++bad1;   // NOT a valid PoW for the original key
    struct { const char* what; std::uint32_t key; std::uint64_t nonce; } attacks[] = {
        {"a different key and an invalid nonce", key2, bad2},
        {"the same key and a different, invalid nonce", key1, bad1},
        {"a different key and the old nonce", key2, nonce1}};
    const int score_before = node.reputation_score(claimed);
    int score_after = score_before;
    for (const auto& a : attacks) {
        if (handshake_pow_valid(claimed, self, a.key, a.nonce, d)) continue;   // (only invalid offers are attacks)
        const bool accepted = node.perform_handshake(claimed, a.key, a.nonce);
        score_after = node.reputation_score(claimed);
        if (accepted) {
            std::printf("REPRODUCED: a handshake claiming the same peer with %s (key 0x%08x, nonce %llu: not a valid PoW) was accepted within the cooldown\n",
                        a.what, a.key, static_cast<unsigned long long>(a.nonce));
            return 1;
        }
        if (before != node.session_key(claimed)) { std::printf("REPRODUCED: rejected handshake changed the session key\n"); return 1; }
        // the very offer that was just rejected, repeated: still not admissible
        if (node.perform_handshake(claimed, a.key, a.nonce)) {
            std::printf("REPRODUCED: a handshake with %s was rejected and then ACCEPTED when repeated unchanged (key 0x%08x, nonce %llu: not a valid PoW)\n", a.what, a.key, static_cast<unsigned long long>(a.nonce));
            return 1;
        }
        // a rejection resets the stored record; make it a success again for the next attack
        std::this_thread::sleep_for(std::chrono::milliseconds(5));
        if (!node.perform_handshake(claimed, key1, nonce1)) { std::printf("the valid handshake was refused\n"); return 2; }
    }
    const auto after = node.session_key(claimed);
    if (before != after) { std::printf("REPRODUCED: rejected handshake changed the session key\n"); return 1; }
    if (score_after >= score_before) { std::printf("REPRODUCED: rejected handshake did not lower the reputation (%d -> %d)\n", score_before, score_after); return 1; }
    // the identical handshake repeated inside the cooldown may be answered from the stored record
    std::printf("second handshake rejected, session key unchanged, reputation %d -> %d; identical repeat accepted: %d\n", score_before, score_after,
                node.perform_handshake(claimed, key1, nonce1) ? 1 : 0);
    return 0;
}
