// native replay for C23: the REAL Node.  The same peer's upload of the same chunk is started twice (two REQUESTs for one chunk,
// per-peer limit 2), then both are acknowledged.  exit 1 = the peer's in-use slot count is not back to zero.
#include "ephemeralnet/core/Node.hpp"
#include <cstdio>
#include <string>
#include <thread>
using namespace ephemeralnet;
// scenario idle_timeout: one upload is started and never acknowledged; after the 1 s transfer timeout a tick() with an EMPTY upload
// queue must release its slot.  scenario gate: per-peer limit 2, two uploads of one peer running -> a third must not be dispatched.
static int idle_timeout() {
    Config config{}; config.identity_seed = 23u; config.upload_transfer_timeout = std::chrono::seconds(1);
    PeerId self{}, peer{}; self[0] = 0xD1; peer[0] = 0xD2;
    Node node(self, config);
    ChunkId chunk{}; chunk[0] = 0x23;
    Node::PendingUploadRequest rq{}; rq.chunk_id = chunk; rq.peer_id = peer; rq.payload_size = 10;
    node.note_upload_start(rq, 10);
    std::this_thread::sleep_for(std::chrono::milliseconds(1200));
    node.tick();
    const auto key = peer_id_to_string(peer);
    const auto after = node.active_uploads_per_peer_.count(key) ? node.active_uploads_per_peer_.at(key) : 0;
    if (after != 0 || !node.active_uploads_.empty()) { std::printf("REPRODUCED: an unacknowledged upload still holds its slot (in-use count %zu) after the transfer timeout and a tick with an empty queue\n", static_cast<std::size_t>(after)); return 1; }
    std::printf("the timed-out upload was pruned by the idle tick\n");
    return 0;
}
static int gate() {
    Config config{}; config.identity_seed = 23u; config.upload_max_transfers_per_peer = 2; config.upload_max_parallel_transfers = 0;
    PeerId self{}, peer{}; self[0] = 0xD1; peer[0] = 0xD2;
    Node node(self, config);
    for (std::uint8_t k = 0; k < 2; ++k) { ChunkId c{}; c[0] = k; Node::PendingUploadRequest rq{}; rq.chunk_id = c; rq.peer_id = peer; rq.payload_size = 10; node.note_upload_start(rq, 10); }
    if (node.can_dispatch_upload(peer)) { std::printf("REPRODUCED: a peer with 2 running uploads and a per-peer limit of 2 is given a third\n"); return 1; }
    std::printf("the per-peer limit holds\n");
    return 0;
}
int main(int argc, char** argv) {
    if (argc > 1 && std::string(argv[1]) == "idle_timeout") return idle_timeout();
    if (argc > 1 && std::string(argv[1]) == "gate") return gate();
    Config config{}; config.identity_seed = 23u; config.upload_max_transfers_per_peer = 2; config.upload_max_parallel_transfers = 4;
    PeerId self{}, peer{}; self[0] = 0xD1; peer[0] = 0xD2;
    Node node(self, config);
    ChunkId chunk{}; chunk[0] = 0x23;
    Node::PendingUploadRequest rq{}; rq.chunk_id = chunk; rq.peer_id = peer; rq.payload_size = 10;
    node.note_upload_start(rq, 10);
    node.note_upload_start(rq, 10);            // the second dispatch of the same (peer, chunk)
    const auto key = peer_id_to_string(peer);
    const auto during = node.active_uploads_per_peer_.count(key) ? node.active_uploads_per_peer_.at(key) : 0;
    node.note_upload_end(peer, chunk, true);   // first acknowledgement
    node.note_upload_end(peer, chunk, true);   // second acknowledgement
    const auto after = node.active_uploads_per_peer_.count(key) ? node.active_uploads_per_peer_.at(key) : 0;
    std::printf("active uploads of the peer: %zu, in-use count during: %zu, after both acknowledgements: %zu\n", node.active_uploads_.size(), static_cast<std::size_t>(during), static_cast<std::size_t>(after));
    if (after != 0 || !node.active_uploads_.empty()) { std::printf("REPRODUCED: all of the peer's uploads were acknowledged but its in-use slot count stays at %zu (a repeated (peer, chunk) start was counted twice)\n", static_cast<std::size_t>(after)); return 1; }
    std::printf("the peer's in-use slot count returned to zero\n");
    return 0;
}
