// native replay for C22: the REAL SwarmCoordinator::compute_plan on a grid of small inputs (candidates 0..4 registered in a real
// KademliaTable, shards 0..6, target replicas 0..4, minimum providers 0..3, threshold 0..3).  Every clause of the property is
// re-checked natively: provider count formula, distinct live providers other than the node itself, every shard handed to exactly one
// provider, every provider at least one shard, counts differ by at most one.  exit 1 = a clause fails on the real code.
#include "ephemeralnet/core/SwarmCoordinator.hpp"
#include <algorithm>
#include <cstdio>
#include <set>
using namespace ephemeralnet;
int main() {
    PeerId self{}; self[0] = 0x01;
    for (unsigned cand = 0; cand <= 4; ++cand) for (unsigned shards = 0; shards <= 6; ++shards) for (unsigned target = 0; target <= 4; ++target)
    for (unsigned minp = 0; minp <= 3; ++minp) for (unsigned thr = 0; thr <= 3; ++thr) {
        Config config{}; config.identity_seed = 22u; config.swarm_target_replicas = static_cast<std::uint16_t>(target); config.swarm_min_providers = static_cast<std::uint16_t>(minp);
        config.swarm_candidate_sample = 16;
        KademliaTable table(self);
        for (unsigned k = 0; k < cand; ++k) { PeerContact c{}; c.id[0] = static_cast<std::uint8_t>(0x80 + k); c.address = "10.0.0." + std::to_string(k) + ":1"; c.expires_at = std::chrono::steady_clock::now() + std::chrono::hours(1); table.register_peer(c); }
        { PeerContact me{}; me.id = self; me.address = "127.0.0.1:1"; me.expires_at = std::chrono::steady_clock::now() + std::chrono::hours(1); table.register_peer(me); }
        protocol::Manifest m{}; m.threshold = static_cast<std::uint8_t>(thr); m.total_shares = static_cast<std::uint8_t>(shards);
        for (unsigned k = 0; k < shards; ++k) { protocol::KeyShard s{}; s.index = static_cast<std::uint8_t>(3 * (k + 1)); m.shards.push_back(s); }   // distinct, deliberately non-contiguous labels
        SwarmCoordinator sc(config);
        ChunkId chunk{}; chunk[0] = 0x22;
        const auto plan = sc.compute_plan(chunk, m, table, self, {});
        const std::size_t c = cand, s = shards;
        const std::size_t want = std::min({c, s, std::max<std::size_t>(target, std::min({std::max<std::size_t>(minp, thr), c, s}))});
        auto fail = [&](const char* what) { std::printf("REPRODUCED: candidates=%u shards=%u target=%u min_providers=%u threshold=%u: %s (plan has %zu providers)\n", cand, shards, target, minp, thr, what, plan.assignments.size()); return 1; };
        if (plan.assignments.size() != want) return fail("the number of providers is not min(candidates, shards, max(target, min(max(min providers, threshold), candidates, shards)))");
        std::set<std::uint8_t> ids; std::multiset<std::uint8_t> handed; std::size_t lo = ~std::size_t{0}, hi = 0;
        for (const auto& a : plan.assignments) {
            if (a.peer.id == self) return fail("the node itself is a provider");
            if (!ids.insert(a.peer.id[0]).second) return fail("a provider appears twice");
            lo = std::min(lo, a.shard_indices.size()); hi = std::max(hi, a.shard_indices.size());
            for (auto i : a.shard_indices) handed.insert(i);
        }
        if (!plan.assignments.empty()) {
            for (unsigned k = 1; k <= shards; ++k) if (handed.count(static_cast<std::uint8_t>(3 * k)) != 1) return fail("a shard is not handed to exactly one provider");
            if (handed.size() != shards) return fail("more shard entries than shards");
            if (lo < 1) return fail("a provider receives no shard");
            if (hi - lo > 1) return fail("shard counts differ by more than one");
        }
    }
    std::printf("all plan clauses hold on the grid\n");
    return 0;
}
