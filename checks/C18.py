from vdriver import Group
META = {'level': 'other', 'assumptions': ['groups decode.*: base64_decode is taken by its contract stub with the payload length NOT tied to the text length (over-approximation) and a URI text of at most 10 characters']}
def groups(tier):
    CH = ['--bounds-check', '--pointer-check', '--signed-overflow-check', '--div-by-zero-check', '--undefined-shift-check']
    return [Group('decode.v1.total', 'manifest_dec', 'C18/decode.c', entry='h_decode_stub', stub=['protocol__base64_decode'], unwind=4,
                  unwind_by={'cxx_strlen': 8, 'cxx_memcmp': 40, 'cxx_copy_u8': 40, 'protocol__read_u64': 9, 'h_decode_stub': 120, 'cxx_fill_u8': 40, 'str_from_n': 14, 'str_substr': 14, 'cxx_rfind0_cstr': 8},
                  defines=['PAYLOAD_CAP=100', 'CXX_VEC_CAP=108', 'CXX_FIXED_STORAGE', 'BASE64_STUB_VIEW', 'VERSION1'], kind='bounded', timeout=1800, backend=['sat', 'cadical', 'cvc5'], checks=CH, replay='expiry',
                  bound='version-1 payloads of at most 100 bytes (any content: header, expiry, up to 1 key shard); base64_decode by contract stub',
                  clause='decode_manifest (version 1) returns a manifest or raises invalid_argument; no out-of-bounds access, signed overflow (extreme expiry timestamps) or other undefined behaviour'),
Group('decode.any_version.total', 'manifest_dec', 'C18/decode.c', entry='h_decode_stub', stub=['protocol__base64_decode'], unwind=8,
                  unwind_by={'cxx_strlen': 8, 'cxx_memcmp': 40, 'cxx_copy_u8': 40, 'protocol__read_u64': 9, 'h_decode_stub': 120, 'cxx_fill_u8': 40, 'str_from_n': 14, 'str_substr': 14, 'cxx_rfind0_cstr': 8},
                  defines=['PAYLOAD_CAP=100', 'CXX_VEC_CAP=108', 'CXX_FIXED_STORAGE', 'BASE64_STUB_VIEW'], kind='bounded', timeout=1800, backend=['sat', 'cadical', 'cvc5'], checks=CH, replay='expiry',
                  bound='payloads of at most 100 bytes, any version and content (header, expiry, shards, metadata, hints as far as they fit); base64_decode by contract stub',
                  clause='decode_manifest (any version) returns a manifest or raises invalid_argument; no out-of-bounds access, signed overflow (extreme expiry timestamps) or other undefined behaviour'),
            Group('base64.total', 'manifest_dec', 'C18/decode.c', entry='h_base64', unwind=8, unwind_by={'cxx_fill_int': 257, 'protocol__base64_decode#0': 66, 'protocol__base64_decode#1': 8, 'vec_u8_grow': 34},
                  defines=['B64MAX=24', 'CXX_VEC_CAP=32', 'CXX_FIXED_STORAGE'], kind='bounded', timeout=600, backend=['sat', 'cadical'], checks=CH,
                  bound='texts of at most 24 characters', clause='base64_decode: memory safe, only invalid_argument, at most 3 bytes per 4 characters')]

def replay(group, trace):
    """the REAL decode_manifest under UBSan + ASan (no recovery) on extreme expiry fields and structured garbage"""
    import sys, os
    root = os.path.dirname(os.path.dirname(os.path.abspath(__file__)))
    sys.path.insert(0, os.path.join(root, 'replay'))
    import replaylib as R
    exe = R.build_full('C18.cpp', with_daemon=False, extra=['-fsanitize=undefined,address', '-fno-sanitize-recover=all', '-g'])
    a = (trace or {}).get('assignments', {})
    if group.entry == 'h_base64' and 'in_n' in a:
        n = R.num(a['in_n'])
        text = bytes((R.num(a.get(f'in_text[{k}]', 0)) & 0xFF) for k in range(n))
        rc, out = R.run(exe, ['text', text.hex() or '00'[:0]], timeout=60)
        last = [l for l in out.strip().splitlines() if l.strip()][-1:] or ['']
        return rc != 0, f'text {text!r}: ' + (last[0][:400] if rc != 0 else 'decoded or refused with invalid_argument')
    rc, out = R.run(exe, [int(os.environ.get('VERIF_SEED', '0') or 0)], timeout=300)
    if rc == 0:
        return False, out.strip().splitlines()[-1][:300]
    lines = [l for l in out.strip().splitlines() if 'runtime error' in l or 'REPRODUCED' in l or 'AddressSanitizer' in l]
    last_input = [l for l in out.strip().splitlines() if l.startswith('expiry field')][-1:]
    return True, (' '.join(last_input) + ': ' + ' | '.join(lines[:2]))[:600]
