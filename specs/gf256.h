/* specification of GF(2^8) with reduction polynomial x^8+x^4+x^3+x^2+1 (0x11D): carry-less multiply, bit by bit */
#ifndef SPEC_GF256_H
#define SPEC_GF256_H
#include <stdint.h>
static inline uint8_t spec_xtime(uint8_t a) { return (uint8_t)((a << 1) ^ ((a & 0x80) ? 0x1D : 0)); }
static inline uint8_t spec_gf_mul(uint8_t a, uint8_t b)
{
  uint8_t r = 0;
  for (int i = 0; i < 8; i++) {
    if (b & 1) r ^= a;
    a = spec_xtime(a);
    b >>= 1;
  }
  return r;
}
#endif
