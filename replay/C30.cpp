// native replay for C30: the REAL CLI (`eph fetch`, src/main.cpp compiled into this driver) against a fake local daemon that
// answers FETCH with bytes that do NOT hash to the manifest's content hash.  args: port mode(local|hint)
//   local: the manifest has no discovery hints, the bytes come from the "local daemon" on --control-port
//   hint : the manifest names the fake endpoint as a control discovery hint (remote control endpoint path)
// exit 1 = an output file with foreign bytes was produced (violation reproduced); 0 = no file / matching file.
#define main eph_cli_main
#include "src/main.cpp"
#undef main
#include <arpa/inet.h>
#include <netinet/in.h>
#include <sys/socket.h>
#include <unistd.h>
#include <thread>

static void fake_daemon(int listener) {
    for (;;) {
        int c = ::accept(listener, nullptr, nullptr);
        if (c < 0) return;
        std::string req; char buf[4096];
        while (req.find("\n\n") == std::string::npos) { const auto n = ::recv(c, buf, sizeof(buf), 0); if (n <= 0) break; req.append(buf, static_cast<std::size_t>(n)); }
        const std::string payload = "EVIL-BYTES";
        std::string resp = "STATUS:OK\nCODE:OK_FETCH\nPAYLOAD-LENGTH:" + std::to_string(payload.size()) + "\nSIZE:" + std::to_string(payload.size()) + "\nSTREAM:CLIENT\n\n" + payload;
        if (req.find("COMMAND:FETCH") == std::string::npos) resp = "STATUS:OK\nCODE:OK_PING\nMESSAGE:pong\n\n";
        ::send(c, resp.data(), resp.size(), 0);
        ::shutdown(c, SHUT_RDWR); ::close(c);
    }
}

int main(int argc, char** argv) {
    if (argc < 3) return 2;
    const int port = std::atoi(argv[1]);
    const std::string mode = argv[2];
    int listener = ::socket(AF_INET, SOCK_STREAM, 0);
    int one = 1; ::setsockopt(listener, SOL_SOCKET, SO_REUSEADDR, &one, sizeof(one));
    sockaddr_in addr{}; addr.sin_family = AF_INET; addr.sin_port = htons(static_cast<std::uint16_t>(port)); addr.sin_addr.s_addr = htonl(INADDR_LOOPBACK);
    if (::bind(listener, reinterpret_cast<sockaddr*>(&addr), sizeof(addr)) != 0 || ::listen(listener, 8) != 0) { std::printf("cannot bind fake daemon\n"); return 2; }
    std::thread(fake_daemon, listener).detach();

    const std::vector<std::uint8_t> expected{'g', 'o', 'o', 'd', ' ', 'b', 'y', 't', 'e', 's'};
    ephemeralnet::protocol::Manifest m{};
    m.chunk_id[0] = 7;
    m.chunk_hash = ephemeralnet::crypto::Sha256::digest(expected);
    m.threshold = 1; m.total_shares = 1;
    ephemeralnet::protocol::KeyShard shard{}; shard.index = 1; m.shards.push_back(shard);
    m.expires_at = std::chrono::system_clock::now() + std::chrono::hours(1);
    if (mode == "hint") {
        ephemeralnet::protocol::DiscoveryHint hint{}; hint.scheme = "control"; hint.transport = "control";
        hint.endpoint = "127.0.0.1:" + std::to_string(port); hint.priority = 0; m.discovery_hints.push_back(hint);
    }
    m.metadata["filename"] = "report.txt";
    auto uri = ephemeralnet::protocol::encode_manifest(m);
    if (mode == "undecodable") uri = "eph://deadbeef";          // the CLI cannot decode it, so it cannot know the expected hash
    auto out = std::filesystem::temp_directory_path() / ("c30-replay-" + std::to_string(port) + ".bin");
    std::filesystem::remove_all(out);
    if (mode == "dir") std::filesystem::create_directories(out);   // --out names an existing directory: the manifest's filename is used inside it
    // in hint mode the local daemon port points nowhere, so only the hinted endpoint can deliver
    const std::string ctl = mode == "hint" ? std::to_string(port + 1) : std::to_string(port);
    std::vector<std::string> a{"eph", "--control-host", "127.0.0.1", "--control-port", ctl, "fetch", uri, "--out", out.string()};
    std::vector<char*> av; for (auto& s : a) av.push_back(s.data());
    int rc = 0;
    try { rc = eph_cli_main(static_cast<int>(av.size()), av.data()); } catch (const std::exception& e) { std::printf("cli exception: %s\n", e.what()); rc = 99; }
    std::printf("\ncli exit code %d\n", rc);
    int verdict = 0;
    if (mode == "dir") {
        for (const auto& e : std::filesystem::directory_iterator(out)) {
            std::ifstream in(e.path(), std::ios::binary);
            std::vector<std::uint8_t> got((std::istreambuf_iterator<char>(in)), std::istreambuf_iterator<char>());
            if (ephemeralnet::crypto::Sha256::digest(got) != m.chunk_hash) {
                std::printf("REPRODUCED: `eph fetch --out <existing directory>` left %s with %zu foreign bytes that do not hash to the manifest's content hash\n", e.path().filename().c_str(), got.size());
                verdict = 1;
            }
        }
        std::filesystem::remove_all(out);
        if (!verdict) std::printf("no foreign file was left in the output directory\n");
    } else
    if (std::filesystem::exists(out)) {
        std::ifstream in(out, std::ios::binary);
        std::vector<std::uint8_t> got((std::istreambuf_iterator<char>(in)), std::istreambuf_iterator<char>());
        if (ephemeralnet::crypto::Sha256::digest(got) != m.chunk_hash) {
            std::printf("REPRODUCED: `eph fetch` (%s path) wrote %zu bytes that do not hash to the manifest's content hash: \"%.*s\"\n", mode.c_str(), got.size(), static_cast<int>(got.size()), reinterpret_cast<const char*>(got.data()));
            verdict = 1;
        }
        std::filesystem::remove(out);
    } else {
        std::printf("no output file was produced (%s path)\n", mode.c_str());
    }
    std::fflush(stdout);
    std::_Exit(verdict);
}
