// native replay for C33: runs the REAL parse_stun_response (anonymous namespace, reached by including the .cpp) on the
// counterexample datagram in an exact-size heap buffer under AddressSanitizer, and re-checks RFC 5389 natively.
// args: length hexbytes txidhex
#include "src/network/NatTraversal.cpp"
#include <cstdio>
#include <cstdlib>
#include <string>
#include <vector>
static std::vector<std::uint8_t> unhex(const std::string& s) { std::vector<std::uint8_t> o; for (size_t i = 0; i + 1 < s.size(); i += 2) o.push_back((std::uint8_t)std::stoul(s.substr(i, 2), nullptr, 16)); return o; }
static void hex(const std::vector<std::uint8_t>& v) { for (auto b : v) std::printf("%02x", b); }
static int check(std::vector<std::uint8_t> bytes, const std::array<std::uint8_t, 12>& txid, bool quiet) {
    const size_t length = bytes.size();
    std::uint8_t* heap = static_cast<std::uint8_t*>(std::malloc(length ? length : 1));   // ASan traps any read outside
    for (size_t i = 0; i < length; i++) heap[i] = bytes[i];
    const auto r = ephemeralnet::network::parse_stun_response(heap, length, txid);
    if (!r) { if (!quiet) std::printf("no address reported\n"); std::free(heap); return 0; }
    // reference: first qualifying attribute per RFC 5389, walking 4-byte aligned TLVs inside the message
    auto be16 = [&](size_t o) { return (unsigned)((heap[o] << 8) | heap[o + 1]); };
    bool ok = length >= 20 && heap[0] == 1 && heap[1] == 1 && length >= 20 + be16(2);
    for (int i = 0; ok && i < 12; i++) ok = heap[8 + i] == txid[i];
    std::string want; unsigned wport = 0; bool found = false;
    if (ok) {
        size_t off = 20, end = 20 + be16(2);
        while (off + 4 <= end) {
            unsigned t = be16(off), l = be16(off + 2);
            if (off + 4 + l > end) break;
            if ((t == 1 || t == 0x20) && l >= 4) {
                unsigned fam = heap[off + 5]; bool x = t == 0x20;
                unsigned port = be16(off + 6) ^ (x ? 0x2112 : 0);
                const std::uint8_t cookie[4] = {0x21, 0x12, 0xA4, 0x42};
                if (fam == 1 && l >= 8) { char b[64]; unsigned char a[4]; for (int i = 0; i < 4; i++) a[i] = heap[off + 8 + i] ^ (x ? cookie[i] : 0);
                    std::snprintf(b, sizeof b, "%u.%u.%u.%u", a[0], a[1], a[2], a[3]); want = b; wport = port; found = true; break; }
                if (fam == 2 && l >= 20) { unsigned char a[16]; for (int i = 0; i < 16; i++) a[i] = heap[off + 8 + i] ^ (x ? (i < 4 ? cookie[i] : txid[i - 4]) : 0);
                    char b[INET6_ADDRSTRLEN]; in6_addr in{}; std::memcpy(&in, a, 16); inet_ntop(AF_INET6, &in, b, sizeof b); want = b; wport = port; found = true; break; }
            }
            off += 4 + ((l + 3u) & ~3u);
        }
    }
    if (!found) { std::printf("REPRODUCED: address %s:%u reported although RFC 5389 decoding yields none\n", r->address.c_str(), r->port); return 1; }
    if (want != r->address || wport != r->port) { std::printf("REPRODUCED: reported %s:%u, RFC 5389 decoding gives %s:%u\n", r->address.c_str(), r->port, want.c_str(), wport); return 1; }
    if (!quiet) std::printf("agrees with RFC 5389: %s:%u\n", want.c_str(), wport);
    std::free(heap);
    return 0;
}
// mode 1: C33 <length> <hexbytes> <txidhex>      replay one datagram
// mode 2: C33 search <seed> <count>               structured random search for a datagram on which the real parser
//                                                  disagrees with RFC 5389 or reads outside the buffer (ASan aborts)
int main(int argc, char** argv) {
    if (argc >= 4 && std::string(argv[1]) != "search") {
        const size_t length = std::strtoul(argv[1], nullptr, 0);
        auto bytes = unhex(argv[2]); bytes.resize(length);
        auto tx = unhex(argv[3]); tx.resize(12);
        std::array<std::uint8_t, 12> txid{}; for (int i = 0; i < 12; i++) txid[i] = tx[i];
        return check(bytes, txid, false);
    }
    if (argc < 4) return 2;
    unsigned long long s = std::strtoull(argv[2], nullptr, 0) * 2654435761ull + 88172645463325252ull;
    auto rnd = [&]() { s ^= s << 13; s ^= s >> 7; s ^= s << 17; return (unsigned)(s >> 16); };
    const long count = std::strtol(argv[3], nullptr, 0);
    const unsigned types[] = {0x0001, 0x0020, 0x8020, 0x0008, 0x8028, 0x0021, 0x0101};
    for (long it = 0; it < count; ++it) {
        std::array<std::uint8_t, 12> txid{}; for (auto& b : txid) b = (std::uint8_t)rnd();
        std::vector<std::uint8_t> body;
        int nattr = rnd() % 4;
        for (int a = 0; a < nattr; ++a) {
            unsigned t = (rnd() % 5 == 0) ? (rnd() & 0xFFFF) : types[rnd() % 7];
            const unsigned lens[] = {0, 3, 4, 7, 8, 9, 12, 19, 20, 21, 24};
            unsigned l = lens[rnd() % 11];
            std::vector<std::uint8_t> v(l); for (auto& b : v) b = (std::uint8_t)rnd();
            if (l >= 2) v[1] = (rnd() % 4 == 0) ? (std::uint8_t)rnd() : (std::uint8_t)(1 + rnd() % 2);
            unsigned declared = l;
            if (rnd() % 6 == 0) declared = l + (rnd() % 9);           // length field larger than the bytes present
            body.push_back(t >> 8); body.push_back(t & 0xFF); body.push_back(declared >> 8); body.push_back(declared & 0xFF);
            body.insert(body.end(), v.begin(), v.end());
            if (rnd() % 8 != 0) while (body.size() % 4) body.push_back(0);
        }
        std::vector<std::uint8_t> d = {0x01, 0x01, 0, 0, 0x21, 0x12, 0xA4, 0x42};
        d.insert(d.end(), txid.begin(), txid.end());
        unsigned mlen = (unsigned)body.size();
        if (rnd() % 8 == 0) mlen = (unsigned)body.size() + (rnd() % 5) - 2;
        d[2] = (std::uint8_t)(mlen >> 8); d[3] = (std::uint8_t)mlen;
        d.insert(d.end(), body.begin(), body.end());
        if (rnd() % 10 == 0 && !d.empty()) d.resize(rnd() % (d.size() + 1));
        if (rnd() % 16 == 0) d[0] = (std::uint8_t)rnd();
        if (rnd() % 16 == 0) d[8 + rnd() % 12] ^= 1;
        std::printf("INPUT length=%zu bytes=", d.size()); hex(d); std::printf(" txid="); for (auto b : txid) std::printf("%02x", b); std::printf("\n");
        std::fflush(stdout);
        if (check(d, txid, true) != 0) return 1;
    }
    std::printf("search exhausted: no disagreement in %ld datagrams\n", count);
    return 0;
}
