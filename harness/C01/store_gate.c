/* C01 / C04 on the tagged control-flow skeleton of ChunkStore::get_record / sweep_expired / snapshot / put:
   C01: a record is served or listed only after `now >= expires_at` was evaluated for it and found false;
   C04: chunks_.erase of a record whose file is on disk (wipe-on-expiry configured) only after wipe_persisted_chunk ran for it. */
#include "chunkstore.c"
#include "common.h"
static void reset(void)
{
  g_persisted = nondet_bool(); g_wipe_cfg = nondet_bool(); g_wiped = 0; g_live = 0; g_listed = 0; g_opened = 0; g_unlinked = 0;
  for (int k = 0; k < 64; ++k) __skel_nonempty[k] = nondet_bool();
}
void h_get_record(void) { reset(); skel_ChunkStore__get_record(); CANARY_POINT(); }
void h_sweep(void) { reset(); skel_ChunkStore__sweep_expired(); CANARY_POINT(); }
void h_snapshot(void) { reset(); skel_ChunkStore__snapshot(); CANARY_POINT(); }
void h_put(void) { reset(); skel_ChunkStore__put(); CANARY_POINT(); }
void h_wipe(void) { reset(); skel_ChunkStore__secure_wipe_file(); CANARY_POINT(); }
