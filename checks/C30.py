from vdriver import Group
META = {'level': 'other'}
def groups(tier):
    return [Group('fetch.write_gate', 'cli_fetch', 'C30/fetch.c', entry='h_fetch', unwind=3, kind='skeleton', checks=[], skeleton=True,
                  bound='control-flow skeleton (E3) of the fetch branch of main(); loops unrolled twice', replay='fetch', timeout=900,
                  backend=['sat', 'cadical'],
                  clause='`eph fetch` opens its output file only after the bytes to be written hashed to the manifest content hash, whichever '
                         'path delivered them (transport hint, control hint, fallback, local daemon)')]


def replay(group, trace):
    """the REAL CLI (main.cpp compiled into the driver) fetching from a fake daemon / hinted endpoint that returns foreign bytes"""
    import sys, os, random
    root = os.path.dirname(os.path.dirname(os.path.abspath(__file__)))
    sys.path.insert(0, os.path.join(root, 'replay'))
    import replaylib as R
    exe = R.build_full('C30.cpp')
    outs, hit = [], False
    for i, mode in enumerate(['local', 'hint', 'undecodable', 'dir']):
        port = 21000 + (os.getpid() * 11 + i * 977 + random.randint(0, 4000)) % 18000
        rc, out = R.run(exe, [port, mode], timeout=120)
        last = [l for l in out.strip().splitlines() if l.strip()][-1:] or ['']
        outs.append(f'{mode}: exit {rc}: {last[0][:240]}')
        hit = hit or rc == 1
    return hit, ' | '.join(outs)
