#!/bin/bash
# allseeds.sh : run every seeded change under /verif/seeded against the check of its property (scratch worktrees; /repo untouched);
# summary in /tmp/p/allseeds.txt (exit 1 = reported as violation, 0 = not detected, 2 = undecided)
cd /verif; : > /tmp/p/allseeds.txt
for d in $(ls seeded | sort); do
  P=${d%-*}
  [ -f seeded/$d/patch.diff ] || continue
  s=$(date +%s); out=$(timeout 3000 tools/seedrun.sh $d $P 2>&1 | head -3 | tr '\n' ' ' | cut -c1-200)
  echo "$d $(( $(date +%s) - s ))s $out" >> /tmp/p/allseeds.txt
done
echo ALLDONE >> /tmp/p/allseeds.txt
