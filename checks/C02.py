from vdriver import Group
META = {'level': 'proof'}
def groups(tier):
    G = [Group('sanitize_config', 'ttl', 'C02/sanitize.c', entry='h_sanitize_config', enforce='sanitize_config',
               clause='for every Config: 1s<=min<=max<=24h, default inside, rotation in [5s,1h], PoW<=24'),
         Group('clamp_chunk_ttl', 'ttl', 'C02/sanitize.c', entry='h_clamp', enforce='clamp_chunk_ttl',
               clause='for every requested TTL and sanitised window the effective TTL is inside the window'),
         Group('enforce_manifest_ttl', 'ttl', 'C02/sanitize.c', entry='h_enforce', enforce='enforce_manifest_ttl',
               clause='manifest TTL below min rejected, above max capped'),
         Group('compose', 'ttl', 'C02/sanitize.c', entry='h_compose', replace=['sanitize_config', 'clamp_chunk_ttl'],
               clause='store path: clamp over the sanitised config (callee contracts only)')]
    G.append(Group('store_path.lifetimes', 'node_store', 'C02/store_path.c', entry='h_store_path', unwind=3, kind='skeleton', checks=[], skeleton=True,
                   replay='store', bound='control-flow skeleton (E3) of Node::store_chunk with value tags; loops unrolled twice',
                   clause='every lifetime a store creates (chunk record, manifest expiry, shard record, self-announcement) is the value '
                          'clamp_chunk_ttl returned for the configured window'))
    return G


def replay(group, trace):
    """the REAL Node::store_chunk under six configurations x thirteen requested TTLs: all four lifetimes inside the window"""
    import sys, os
    if group.replay != 'store':
        return None, 'no native replay for this group'
    root = os.path.dirname(os.path.dirname(os.path.abspath(__file__)))
    sys.path.insert(0, os.path.join(root, 'replay'))
    import replaylib as R
    exe = R.build_full('C02.cpp', with_daemon=False)
    rc, out = R.run(exe, [], timeout=180)
    last = [l for l in out.strip().splitlines() if l.strip()][-1:] or ['']
    return rc == 1, last[0][:400]
