/* C19 (Node.cpp): leading-zero counter, handshake and announce PoW validators */
#include "pow_node.c"
#include "clz.h"
#include "common.h"

void h_clz(void)
{
  arr_u8_32 in_digest;
  uint64_t r = count_leading_zero_bits(&in_digest);
  __CPROVER_assert(r == spec_clz(in_digest._, 32), "count_leading_zero_bits == clz256");
  CANARY_POINT();
}

static void sha_reset(void)
{
  __g_sha_len = 0; __g_sha_seen = 0; __g_sha_finalized = 0; __g_sha_ctors = 0;
}

void h_handshake(void)
{
  arr_u8_32 in_initiator, in_responder; uint32_t in_public; uint64_t in_nonce; uint8_t in_difficulty;
  sha_reset();
  _Bool ok = handshake_pow_valid(&in_initiator, &in_responder, in_public, in_nonce, in_difficulty);
  if (in_difficulty == 0) {
    __CPROVER_assert(ok, "difficulty 0 accepts");
  } else {
    /* what was hashed: len64(32)|initiator|len64(32)|responder|be64(public)|be64(nonce), exactly once */
    __CPROVER_assert(__g_sha_ctors == 1 && __g_sha_finalized == 1 && __g_sha_len == 96, "one hash over 96 bytes");
    uint64_t p = __g_sha_pos;
    if (p < 96) {
      uint8_t want = p < 8 ? BE64_BYTE(32, p) : p < 40 ? in_initiator._[p - 8] : p < 48 ? BE64_BYTE(32, p - 40)
                   : p < 80 ? in_responder._[p - 48] : p < 88 ? BE64_BYTE(in_public, p - 80) : BE64_BYTE(in_nonce, p - 88);
      __CPROVER_assert(__g_sha_seen && __g_sha_byte == want, "hashed byte equals the field encoding");
    }
    __CPROVER_assert(ok == (spec_clz(__g_sha_digest._, 32) >= in_difficulty), "accepted iff clz(digest) >= difficulty");
  }
  CANARY_POINT();
}

void h_announce(void)
{
  protocol__AnnouncePayload in_p; uint8_t in_difficulty;
  __CPROVER_assume(in_p.endpoint.n <= 0x0000FFFFFFFFFFFFul && in_p.manifest_uri.n <= 0x0000FFFFFFFFFFFFul && in_p.assigned_shards.n <= 0x0000FFFFFFFFFFFFul);
  in_p.endpoint.p = malloc(in_p.endpoint.n + 1);
  in_p.manifest_uri.p = malloc(in_p.manifest_uri.n + 1);
  in_p.assigned_shards.p = malloc(in_p.assigned_shards.n + 1);
  __CPROVER_assume(in_p.endpoint.p && in_p.manifest_uri.p && in_p.assigned_shards.p);
  sha_reset();
  _Bool ok = announce_pow_valid(&in_p, in_difficulty);
  if (in_difficulty == 0) {
    __CPROVER_assert(ok, "difficulty 0 accepts");
  } else {
    uint64_t e = in_p.endpoint.n, m = in_p.manifest_uri.n, s = in_p.assigned_shards.n;
    uint64_t o_e = 80, o_m = o_e + 8 + e, o_s = o_m + 8 + m, o_t = o_s + 8 + s;
    __CPROVER_assert(__g_sha_ctors == 1 && __g_sha_finalized == 1 && __g_sha_len == o_t + 16, "one hash over the whole encoding");
    uint64_t p = __g_sha_pos;
    if (p < o_t + 16) {
      uint8_t want =
        p < 8 ? BE64_BYTE(32, p) : p < 40 ? in_p.chunk_id._[p - 8] : p < 48 ? BE64_BYTE(32, p - 40) : p < 80 ? in_p.peer_id._[p - 48]
        : p < o_e + 8 ? BE64_BYTE(e, p - o_e) : p < o_m ? (uint8_t)in_p.endpoint.p[p - o_e - 8]
        : p < o_m + 8 ? BE64_BYTE(m, p - o_m) : p < o_s ? (uint8_t)in_p.manifest_uri.p[p - o_m - 8]
        : p < o_s + 8 ? BE64_BYTE(s, p - o_s) : p < o_t ? in_p.assigned_shards.p[p - o_s - 8]
        : p < o_t + 8 ? BE64_BYTE((uint64_t)in_p.ttl, p - o_t) : BE64_BYTE(in_p.work_nonce, p - o_t - 8);
      __CPROVER_assert(__g_sha_seen && __g_sha_byte == want, "hashed byte equals the field encoding");
    }
    __CPROVER_assert(ok == (spec_clz(__g_sha_digest._, 32) >= in_difficulty), "accepted iff clz(digest) >= difficulty");
  }
  CANARY_POINT();
}

/* solvers: a reported nonce is one the validator accepted (validators by contract, PRNG opaque, any attempt) */
void h_announce_solver(void)
{
  protocol__AnnouncePayload *in_p = malloc(sizeof(*in_p)); uint8_t in_difficulty;
  __CPROVER_assume(in_p != 0);
  __CPROVER_assume(in_p->endpoint.n <= 0x0000FFFFFFFFFFFFul && in_p->manifest_uri.n <= 0x0000FFFFFFFFFFFFul && in_p->assigned_shards.n <= 0x0000FFFFFFFFFFFFul);
  in_p->endpoint.p = malloc(in_p->endpoint.n + 1);
  in_p->manifest_uri.p = malloc(in_p->manifest_uri.n + 1);
  in_p->assigned_shards.p = malloc(in_p->assigned_shards.n + 1);
  __CPROVER_assume(in_p->endpoint.p && in_p->manifest_uri.p && in_p->assigned_shards.p);
  sha_reset(); __g_apv_called = 0;
  _Bool ok = compute_announce_pow(in_p, in_difficulty);
  CANARY_POINT();
}
void h_handshake_solver(void)
{
  arr_u8_32 *in_i = malloc(sizeof(arr_u8_32)), *in_r = malloc(sizeof(arr_u8_32)); uint64_t *in_out = malloc(8);
  uint32_t in_public; uint8_t in_difficulty;
  __CPROVER_assume(in_i && in_r && in_out);
  sha_reset(); __g_hpv_called = 0;
  _Bool ok = compute_handshake_pow(in_i, in_r, in_public, in_difficulty, in_out);
  CANARY_POINT();
}
