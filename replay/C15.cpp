// native replay for C15: decode(encode(m)) on the REAL protocol codec.  args: type version ttl nonce lenA lenB lenC accepted
#include "ephemeralnet/protocol/Message.hpp"
#include <cstdio>
#include <cstdlib>
using namespace ephemeralnet;
int main(int argc, char** argv) {
    if (argc < 9) return 2;
    const int type = std::atoi(argv[1]);
    const unsigned version = std::strtoul(argv[2], nullptr, 0);
    const unsigned long ttl = std::strtoul(argv[3], nullptr, 0);
    const unsigned long long nonce = std::strtoull(argv[4], nullptr, 0);
    const int la = std::atoi(argv[5]), lb = std::atoi(argv[6]), lc = std::atoi(argv[7]);
    const bool accepted = std::atoi(argv[8]) != 0;
    protocol::Message m{};
    m.version = static_cast<std::uint8_t>(version);
    m.type = static_cast<protocol::MessageType>(type + 1);
    switch (type) {
        case 0: { protocol::AnnouncePayload p{}; p.ttl = std::chrono::seconds(ttl); p.work_nonce = nonce; p.endpoint = std::string(la, 'e');
                  p.manifest_uri = std::string(lb, 'm'); p.assigned_shards.assign(lc, 7); p.chunk_id[0] = 1; p.peer_id[31] = 2; m.payload = p; break; }
        case 1: { protocol::RequestPayload p{}; p.chunk_id[0] = 1; m.payload = p; break; }
        case 2: { protocol::ChunkPayload p{}; p.ttl = std::chrono::seconds(ttl); p.data.assign(la, 9); m.payload = p; break; }
        case 3: { protocol::AcknowledgePayload p{}; p.accepted = accepted; m.payload = p; break; }
        case 4: { protocol::TransportHandshakePayload p{}; p.work_nonce = nonce; m.payload = p; break; }
        default: { protocol::HandshakeAckPayload p{}; p.accepted = accepted; m.payload = p; break; }
    }
    const auto wire = protocol::encode(m);
    const auto back = protocol::decode(wire);
    if (!back.has_value()) { std::printf("REPRODUCED: decode(encode(m)) returned nullopt for type=%d version=%u (wire %zu bytes)\n", type, version, wire.size()); return 1; }
    const unsigned v = version < 1 ? 1 : version > 4 ? 4 : version;
    if (back->version != v || back->type != m.type || back->payload.index() != m.payload.index()) { std::printf("REPRODUCED: header mismatch\n"); return 1; }
    if (type == 0) {
        const auto& a = std::get<protocol::AnnouncePayload>(m.payload); const auto& b = std::get<protocol::AnnouncePayload>(back->payload);
        if (a.ttl != b.ttl || a.endpoint != b.endpoint || a.manifest_uri != b.manifest_uri || a.assigned_shards != b.assigned_shards ||
            a.chunk_id != b.chunk_id || a.peer_id != b.peer_id || b.work_nonce != (v >= 3 ? a.work_nonce : 0)) { std::printf("REPRODUCED: announce fields differ\n"); return 1; }
    }
    std::printf("round trip ok\n");
    return 0;
}
