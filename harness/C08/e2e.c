/* C08 bounded end-to-end: for one CONCRETE message length LEN and split point SPLIT (contents symbolic), the digest
   produced through the public API (constructor, update(first SPLIT bytes), update(rest), finalize) equals the FIPS 180-4
   value of the whole message.  Does not depend on anything inside the functions (robust to rewrites). */
#include "sha256.c"
#include "fips180.h"
#include "C08/common.h"
#ifndef LEN
#define LEN 3
#endif
#ifndef SPLIT
#define SPLIT 0
#endif
void harness(void)
{
  uint8_t in_msg[LEN + 1];
  crypto__Sha256 h;
  __g_stream_mode = 0; __g_calls = 0;
  crypto__Sha256__Sha256__ctor(&h);
  crypto__Sha256__update(&h, (span_u8){in_msg, SPLIT});
  crypto__Sha256__update(&h, (span_u8){in_msg + SPLIT, LEN - SPLIT});
  arr_u8_32 d = crypto__Sha256__finalize(&h);
  uint8_t want[32];
  fips_sha256(in_msg, LEN, want);
  for (int i = 0; i < 32; i++) __CPROVER_assert(d._[i] == want[i], "digest equals FIPS 180-4 SHA-256 of the whole message");
  CANARY_POINT();
}
