// native replay for C05: the REAL Node.  A manifest whose expiry time has passed sits in the manifest cache together with its swarm
// plan (the state a node is in some time after registering a manifest; set directly instead of sleeping until the manifest expires);
// a due cleanup tick must drop both.  exit 1 = still held after the tick.
#include "ephemeralnet/core/Node.hpp"
#include <cstdio>
#include <string>
#include <thread>
using namespace ephemeralnet;
// scenario report: a chunk stored for 1 s expires; a lookup (fetch_chunk) is the first to notice and drops the record; the next
// cleanup tick must still report the expiry exactly once in the cleanup notifications.
static int report() {
    Config config{}; config.identity_seed = 5u; config.cleanup_interval = std::chrono::seconds(0); config.min_manifest_ttl = std::chrono::seconds(1);
    PeerId self{}; self[0] = 0xC5;
    Node node(self, config);
    ChunkId chunk{}; chunk[0] = 0x55;
    (void)node.store_chunk(chunk, ChunkData{1, 2, 3}, std::chrono::seconds(1));
    (void)node.drain_cleanup_notifications();
    std::this_thread::sleep_for(std::chrono::milliseconds(1200));
    const auto gone = node.fetch_chunk(chunk);          // the lookup notices the expiry first
    node.tick();
    node.tick();
    const auto notes = node.drain_cleanup_notifications();
    const auto key = chunk_id_to_string(chunk);
    int n = 0; for (const auto& k : notes) if (k == key) n++;
    if (gone.has_value()) { std::printf("REPRODUCED: an expired chunk was served\n"); return 1; }
    if (n != 1) { std::printf("REPRODUCED: the expiry of a local chunk that a lookup noticed first is reported %d times in the cleanup notifications (exactly once required)\n", n); return 1; }
    std::printf("the expiry was reported exactly once\n");
    return 0;
}
int main(int argc, char** argv) {
    if (argc > 1 && std::string(argv[1]) == "report") return report();
    Config config{}; config.identity_seed = 5u; config.cleanup_interval = std::chrono::seconds(0);
    PeerId self{}; self[0] = 0xC5;
    Node node(self, config);
    protocol::Manifest m{}; m.chunk_id[0] = 0x05; m.threshold = 1; m.total_shares = 1;
    protocol::KeyShard s{}; s.index = 1; m.shards.push_back(s);
    m.expires_at = std::chrono::system_clock::now() - std::chrono::seconds(10);
    const auto key = chunk_id_to_string(m.chunk_id);
    node.manifest_cache_[key] = m;
    SwarmDistributionPlan plan{}; plan.chunk_id = m.chunk_id; plan.next_rebalance = std::chrono::steady_clock::now() + std::chrono::hours(1);
    node.swarm_plans_[key] = plan;
    node.tick();
    const bool manifest_held = node.manifest_cache_.count(key) != 0, plan_held = node.swarm_plans_.count(key) != 0;
    if (manifest_held || plan_held) { std::printf("REPRODUCED: after a cleanup tick the node still holds %s%s%s of a chunk whose manifest expired 10 s ago\n", manifest_held ? "the cached manifest" : "", manifest_held && plan_held ? " and " : "", plan_held ? "the swarm plan" : ""); return 1; }
    std::printf("the expired manifest and its swarm plan were dropped by the cleanup tick\n");
    return 0;
}
