from vdriver import Group
META = {'level': 'other', 'assumptions': ['group tick.cleanup: everything Node::tick delegates to (store sweep, DHT sweep, withdraw_contact, retire_swarm_ledger, rebalance / upload / fetch / key-rotation passes) is replaced by ghost-counting frame contracts; rebalance_swarm_plans is assumed never to create a plan']}
STUBS = ['ChunkStore__sweep_expired', 'KademliaTable__sweep_expired', 'KademliaTable__withdraw_contact', 'Node__retire_swarm_ledger', 'Node__rebalance_swarm_plans',
         'Node__process_pending_uploads', 'Node__process_pending_fetches', 'Node__rotate_session_keys', 'chunk_id_to_string']
def groups(tier):
    return [Group('tick.cleanup', 'node_tick', 'C05/tick.c', entry='h_tick', stub=STUBS, unwind=5, kind='bounded', backend=['cvc5', 'z3', 'sat'], timeout=600,
                  checks=['--bounds-check', '--pointer-check'], defines=['CXX_FIXED_STORAGE', 'CXX_VEC_CAP=8'], replay='tick',
                  bound='the store sweep reports at most 2 expired chunks in this tick (the loop over them is unwound; every other quantity is symbolic)',
                  clause='Node::tick: a due cleanup sweeps store and DHT once, reports / withdraws / retires every expired local chunk exactly once, and drops the '
                         'cached manifest and swarm plan of a chunk whose manifest expired by now'),
            Group('expiry.reported_once', 'chunkstore_e2', 'C05/report.c', entry='h_report', stub=['chunk_id_to_string', 'ChunkStore__wipe_persisted_chunk'], unwind=5,
                  unwind_by={'count_id': 34, 'cxx_memcmp': 34}, kind='unbounded', backend=['sat', 'cadical', 'cvc5'], timeout=600, checks=['--bounds-check', '--pointer-check'],
                  defines=REPORT_DEFINES, replay='report',
                  clause='ChunkStore: a chunk that expired by the time of a cleanup sweep is reported by it exactly once -- also when a lookup noticed the '
                         'expiry first -- and never again; a live chunk is neither reported nor dropped')]
REPORT_DEFINES = ['CXX_FIXED_STORAGE', 'CXX_VEC_CAP=4', 'HAS_PENDING']
def replay(group, trace):
    """the REAL Node: an expired manifest and its plan in the caches, then a due cleanup tick"""
    import sys, os
    root = os.path.dirname(os.path.dirname(os.path.abspath(__file__)))
    sys.path.insert(0, os.path.join(root, 'replay'))
    import replaylib as R
    exe = R.build_full('C05.cpp', with_daemon=False)
    rc, out = R.run(exe, ['report'] if group.replay == 'report' else [], timeout=60)
    last = [l for l in out.strip().splitlines() if l.strip()][-1:] or ['']
    return rc == 1, last[0][:400]
