from vdriver import Group
META = {'level': 'proof'}
def groups(tier):
    return [Group('decode_signed', 'message', 'C13/signed.c', entry='h_decode_signed',
                  replace=['crypto__HmacSha256__verify', 'protocol__decode', 'crypto__HmacSha256__compute', 'protocol__encode'], unwind=40, kind='unbounded',
                  clause='decode_signed accepts iff n >= 32, verify(key, buf[0,n-32), buf[n-32,n)) and decode(buf[0,n-32)) succeed'),
            # the callee contract that carries 'the last 32 bytes EQUAL the MAC': HmacSha256::verify itself (same group as C08)
            Group('hmac.verify', 'hmac', 'C08/hmac_rfc2104.c', entry='h_verify', replace=['crypto__HmacSha256__compute'], unwind=34,
                  backend=['sat', 'cadical'], kind='constant-unwind', bound='32-byte comparison loop',
                  clause='verify <=> |mac| == 32 and mac == compute(key, data), byte for byte')]
