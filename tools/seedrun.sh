#!/bin/bash
# seedrun.sh <seed-dir-name> <PROP> [check args...] : run a check against a scratch worktree of /repo with a seeded change applied
# (VERIF_REPO / VERIF_BUILD / VERIF_OUT point into /tmp, so neither /repo nor the committed evidence is touched; safe to run concurrently)
S=/verif/seeded/$1; P=$2; shift 2
N=$(basename $S)-$P
WT=/tmp/sw/$N; B=/tmp/sb/$N
mkdir -p /tmp/sw /tmp/sb /tmp/p; rm -rf "$WT" "$B"; git -C /repo worktree prune
git -C /repo worktree add --detach "$WT" HEAD >/dev/null 2>&1 || { echo "worktree failed"; exit 2; }
( cd "$WT" && git apply "$S/patch.diff" ) || { echo "patch does not apply"; git -C /repo worktree remove --force "$WT"; exit 2; }
cd /verif && VERIF_REPO=$WT VERIF_BUILD=$B VERIF_OUT=$B ./check "$P" "$@" > /tmp/p/seed-$N.log 2>&1; rc=$?
git -C /repo worktree remove --force "$WT"; rm -rf "$WT" "$B"
echo "seed $(basename $S) property $P -> exit $rc"
grep -E "VIOLATION|UNDECIDED|KNOWN" /tmp/p/seed-$N.log | cut -c1-250 | head -5
grep -E "failed obligation" /tmp/p/seed-$N.log | cut -c1-200 | head -4
exit $rc
