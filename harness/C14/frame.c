/* C14 (frame layout, the real statements of SessionManager::send and receive_loop lowered as statement slices):
   h_header : for EVERY ciphertext length the four bytes after the 12-byte nonce are the big-endian 32-bit length, and the length the
              receiver computes from those four bytes (receive_loop's statement) is the length the sender framed -- for all lengths below 2^32;
   h_body   : for every ciphertext of at most B bytes the frame carries the ciphertext byte-for-byte, in order, right after the length
              field, and the nonce bytes written before are untouched. */
#include "session_frame.c"
#include "common.h"
#ifndef B
#define B 8
#endif
void h_header(void)
{
  static uint8_t frame[16 + 4]; static vec_u8 ct, buf;
  uint64_t in_len; __CPROVER_assume(in_len <= 0xFFFFFFFFul);
  ct.p = 0; ct.n = in_len; ct.cap = in_len;
  buf.p = frame; buf.n = 20; buf.cap = 20;
  uint32_t l = network__SessionManager__send__slice_frame_header(&buf, &ct);
  __CPROVER_assert(frame[12] == (uint8_t)(in_len >> 24) && frame[13] == (uint8_t)(in_len >> 16) && frame[14] == (uint8_t)(in_len >> 8) && frame[15] == (uint8_t)in_len, "the length field is the big-endian 32-bit ciphertext length, right after the 12-byte nonce");
  arr_u8_4 field = {{frame[12], frame[13], frame[14], frame[15]}};
  uint32_t seen = network__SessionManager__receive_loop__slice_frame_length(&field);
  __CPROVER_assert(seen == in_len, "the receiver reads exactly the length the sender framed");
  CANARY_POINT();
}
void h_body(void)
{
  static uint8_t frame[16 + B], text[B], nonce_before[12]; static vec_u8 ct, buf;
  { uint8_t a[16 + B]; for (int k = 0; k < 16 + B; ++k) frame[k] = a[k]; uint8_t b[B]; for (int k = 0; k < B; ++k) text[k] = b[k]; }
  for (int k = 0; k < 12; ++k) nonce_before[k] = frame[k];
  uint64_t in_len; __CPROVER_assume(in_len <= B);
  ct.p = text; ct.n = in_len; ct.cap = B;
  buf.p = frame; buf.n = 16 + in_len; buf.cap = 16 + B;
  (void)network__SessionManager__send__slice_frame_fill(&buf, &ct);
  uint64_t g; __CPROVER_assume(g < in_len);
  __CPROVER_assert(frame[16 + g] == text[g], "the frame carries the ciphertext byte-for-byte, in order, after the length field");
  uint64_t h; __CPROVER_assume(h < 12);
  __CPROVER_assert(frame[h] == nonce_before[h], "the nonce at the head of the frame is left as written");
  CANARY_POINT();
}
