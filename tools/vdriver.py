#!/usr/bin/env python3
"""Check driver: lowers units, builds obligation groups, runs CBMC (dfcc contracts), accounts obligations,
guards vacuity, replays counterexamples natively, writes evidence.  Exit 0 held / 1 violation / 2 undecided."""
import sys, os, re, json, time, subprocess, importlib.util, hashlib, shutil, concurrent.futures as cf

ROOT = os.path.dirname(os.path.dirname(os.path.abspath(__file__)))
sys.path.insert(0, os.path.join(ROOT, 'tools'))
import cxx2c
from cxxast import LoweringError

REPO = os.environ.get('VERIF_REPO', '/repo')
BUILD = os.environ.get('VERIF_BUILD') or os.path.join(ROOT, 'build')
CHECKS = ['--bounds-check', '--pointer-check', '--pointer-overflow-check', '--signed-overflow-check',
          '--div-by-zero-check', '--undefined-shift-check', '--pointer-primitive-check']
MEM_KB = 24 * 1024 * 1024
LIBC_OK = {'malloc', 'free', 'calloc', 'abort', 'exit', '__assert_fail'}


class Group:
    def __init__(self, name, unit=None, harness=None, entry=None, enforce=None, replace=(), loop_contracts=False, unwind=None,
                 backend='sat', timeout=600, kind='unbounded', bound=None, clause='', defines=(), checks=None,
                 expect='pass', replay=None, tier='quick', extra=(), canary=True, unwindset=(), object_bits=None,
                 inputs=(), nondet_static=False, no_standard_checks=False, unwind_by=None, unwind_claims=(), skeleton=False, stub=()):
        self.name, self.unit, self.harness = name, unit, harness
        self.entry = entry or 'harness'
        self.enforce, self.replace = enforce, list(replace)
        self.loop_contracts, self.unwind = loop_contracts, unwind
        self.backend, self.timeout = backend, timeout
        self.kind, self.bound, self.clause = kind, bound, clause
        # functions whose calls are replaced by the contract stub the lowering generates (assert requires / havoc assigns /
        # assume ensures) instead of goto-instrument's --replace-call-with-contract
        self.stub = list(stub)
        self.defines = list(defines) + [f'CXX_STUB_{f}' for f in self.stub]
        self.checks = CHECKS if checks is None else checks
        self.expect, self.replay, self.tier = expect, replay, tier
        self.extra = list(extra)
        self.canary = canary
        self.unwindset = list(unwindset)
        self.object_bits = object_bits
        self.inputs = list(inputs)
        self.unwind_by = dict(unwind_by or {})
        # regexes of functions whose loops are unwound to a bound that is COMPLETE for the operand width: a failing
        # unwinding assertion there is non-termination within the type's range, i.e. a violation.  Any other failing
        # unwinding assertion only says that the harness bound was too small and is reported as undecided.
        self.unwind_claims = list(unwind_claims)
        # E3: the group runs on a control-flow skeleton (over-approximation): a failed obligation is reported as a violation
        # only when the native replay reproduces it on the real code, otherwise as undecided
        self.skeleton = skeleton


class Result:
    def __init__(self, g):
        self.group = g
        self.status = 'error'      # pass | fail | undecided | error
        self.props = []            # (name, description, status, line)
        self.failed = []
        self.solver_s = 0.0
        self.wall_s = 0.0
        self.backend = None
        self.detail = ''
        self.canary_ok = None
        self.trace_inputs = None
        self.log = ''


def sh(cmd, timeout=None, cwd=None, mem=True):
    pre = f'ulimit -v {MEM_KB}; ' if mem else ''
    try:
        p = subprocess.run(['bash', '-c', pre + 'exec ' + ' '.join(shquote(c) for c in cmd)], stdout=subprocess.PIPE,
                           stderr=subprocess.STDOUT, timeout=timeout, cwd=cwd)
        return p.returncode, p.stdout.decode(errors='replace')
    except subprocess.TimeoutExpired as e:
        subprocess.run(['pkill', '-P', str(os.getpid()), '-x', 'cvc5'], stderr=subprocess.DEVNULL)
        return 124, (e.stdout or b'').decode(errors='replace') + '\nTIMEOUT'


ACTIVE = set()     # live solver processes (each in its own session); killed when the driver itself is terminated


def _terminate_all(signum=None, frame=None):
    for p in list(ACTIVE):
        kill_tree(p)
    if signum is not None:
        os._exit(2)


def install_signal_handlers():
    import signal, atexit
    signal.signal(signal.SIGTERM, _terminate_all)
    signal.signal(signal.SIGINT, _terminate_all)
    atexit.register(_terminate_all)


def race(base, backends, timeout, extra_jobs=()):
    """run `base + BACKENDS[be]` for every back end (plus extra (tag, cmd) jobs) concurrently; yield (tag, rc, output, seconds)
    as they finish; when the consumer stops iterating the remaining processes are killed"""
    import tempfile, signal
    procs = []
    scripts = []
    pre = f'ulimit -v {MEM_KB}; '
    t0 = time.time()
    # the SMT back ends write their problem files to TMPDIR and leave them behind when they lose the race and are killed (hundreds of MB
    # each): every race gets its own temporary directory, removed when the race is over
    tmpd = tempfile.mkdtemp(prefix='vrace-')
    env = dict(os.environ, TMPDIR=tmpd)
    for be, argv in [(be, base + BACKENDS[be]) for be in backends] + list(extra_jobs):
        f = tempfile.TemporaryFile()
        script = tempfile.NamedTemporaryFile('w', suffix='.sh', delete=False)   # a single argv string is limited to 128 KiB
        script.write(pre + 'exec ' + ' '.join(shquote(c) for c in argv) + '\n')
        script.close()
        scripts.append(script.name)
        procs.append([be, subprocess.Popen(['bash', script.name], stdout=f, stderr=subprocess.STDOUT, start_new_session=True, env=env), f])
        ACTIVE.add(procs[-1][1])
    try:
        pending = list(procs)
        while pending:
            for item in list(pending):
                be, p, f = item
                rc = p.poll()
                if rc is not None:
                    pending.remove(item)
                    f.seek(0)
                    yield be, rc, f.read().decode(errors='replace'), time.time() - t0
            if pending and time.time() - t0 > timeout:
                for be, p, f in pending:
                    kill_tree(p)
                    f.seek(0)
                    yield be, 124, f.read().decode(errors='replace') + '\nTIMEOUT', time.time() - t0
                pending = []
            if pending:
                time.sleep(0.2)
    finally:
        for be, p, f in procs:
            if p.poll() is None:
                kill_tree(p)
            ACTIVE.discard(p)
            f.close()
        import shutil
        shutil.rmtree(tmpd, ignore_errors=True)
        for sc in scripts:
            try:
                os.unlink(sc)
            except OSError:
                pass


def kill_tree(p):
    import signal
    try:
        os.killpg(p.pid, signal.SIGKILL)
    except Exception:
        pass
    try:
        p.wait(timeout=5)
    except Exception:
        pass


def shquote(s):
    if re.fullmatch(r'[\w@%+=:,./\-]+', s):
        return s
    return "'" + s.replace("'", "'\\''") + "'"


_lowered = {}


def lower_unit(unit):
    if unit in _lowered:
        return _lowered[unit]
    spec = os.path.join(ROOT, 'contracts', unit + '.spec')
    out_c = os.path.join(BUILD, unit + '.c')
    out_m = os.path.join(BUILD, unit + '.meta.json')
    skel = os.path.join(ROOT, 'contracts', unit + '.skel')
    if os.path.exists(skel):
        import cxxskel
        cxxskel.lower(skel, out_c, out_m)     # level E3: control-flow skeleton
    else:
        u = cxx2c.lower(spec, out_c, out_m)
    meta = json.load(open(out_m))
    _lowered[unit] = meta
    return meta


BACKENDS = {
    'sat': [],
    'cadical': ['--sat-solver', 'cadical'],
    'kissat': ['--external-sat-solver', 'kissat'],
    'cvc5': ['--cvc5'],
    'z3': ['--z3'],
}


def parse_json_ui(out):
    """extract property results from cbmc --json-ui output"""
    try:
        start = out.index('[')
        data = json.loads(out[start:])
    except Exception:
        return None, None, 'unparseable cbmc output'
    props = None
    msgs = []
    verdict = None
    for item in data:
        if 'result' in item:
            props = item['result']
        if item.get('messageType') in ('ERROR', 'WARNING'):
            msgs.append(item.get('messageText', ''))
        if 'cProverStatus' in item:
            verdict = item['cProverStatus']
    return props, verdict, '\n'.join(msgs)


def run_group(g, workdir):
    r = Result(g)
    t0 = time.time()
    os.makedirs(workdir, exist_ok=True)
    try:
        meta = lower_unit(g.unit) if g.unit else None
    except Exception as e:
        r.status = 'error'
        r.detail = f'lowering failed: {e}'
        return r
    hpath = os.path.join(ROOT, 'harness', g.harness)
    gb = os.path.join(workdir, 'a.gb')
    inc = ['-I' + os.path.join(ROOT, 'libmodel'), '-I' + BUILD, '-I' + os.path.join(ROOT, 'specs'),
           '-I' + os.path.join(ROOT, 'harness')]
    cc = ['goto-cc', '--function', g.entry] + inc + ['-D' + d for d in g.defines] + ['-DCANARY'] * bool(g.canary) + [hpath, '-o', gb]
    # compile with -Wall and read the diagnostics: a harness that passes a pointer of one record / container type where the lowered code (after a change
    # of representation in /repo) now expects another only draws a WARNING from the C front end and would then be "verified" on garbage;
    # that case is a harness that no longer fits the code: undecided, never a verdict.  Other warnings are not errors.
    rc, out = sh(cc[:1] + ['-Wall'] + cc[1:], timeout=300)
    misfit = [l.strip() for l in out.splitlines() if 'incompatible pointer types' in l and '/harness/' in l.split(':')[0]]
    if misfit:      # only diagnostics located in the harness: the lowered text itself iterates a map view through a layout-identical pair type
        r.status = 'error'
        r.detail = 'the harness does not fit the lowered code any more (representation changed?): ' + ' | '.join(misfit)[:600]
        r.log += out
        return r
    r.log += out
    if rc != 0:
        r.detail = 'goto-cc failed:\n' + out[-3000:]
        return r
    cur = gb
    # ---- loops: map goto loop ids to (function, source ordinal) through the /*@L:fn:k:C|N*/ markers of the lowered text
    rc, out = sh(['goto-instrument', '--show-loops', '--json-ui', gb], timeout=120)
    try:
        loops = [l for item in json.loads(out[out.index('['):]) if isinstance(item, dict) for l in item.get('loops', [])]
    except Exception:
        r.detail = 'cannot list loops: ' + out[-500:]
        return r
    markers = {}
    for u in ([g.unit] if g.unit else []):
        for ln, text in enumerate(open(os.path.join(BUILD, u + '.c')), 1):
            m = re.search(r'/\*@L:(\w+):(\d+):([CN])\*/', text)
            if m:
                markers[(os.path.join(BUILD, u + '.c'), ln)] = m.groups()
    uw = []
    r.contract_loops = []
    for l in loops:
        loc = l.get('sourceLocation', {})
        mk = markers.get((loc.get('file'), int(loc.get('line', 0) or 0)))
        if g.loop_contracts and mk and mk[2] == 'C':
            r.contract_loops.append(l['name'])
            continue
        if l['name'].startswith('__CPROVER') or not loc.get('file'):
            continue
        fn = l['name'].rsplit('.', 1)[0]
        if fn in g.replace:
            continue   # body is replaced by the contract; unwinding it before dfcc only inflates goto-instrument (measured: 31 GB)
        bound = None
        if mk:
            bound = g.unwind_by.get(f'{mk[0]}#{mk[1]}')
        if bound is None:
            bound = g.unwind_by.get(l['name'], g.unwind_by.get(fn, g.unwind))
        if bound is not None:
            uw.append(f"{l['name']}:{bound}")
    r.unwindset = uw
    if g.loop_contracts and uw:
        # loops without a contract must be unwound BEFORE dfcc (dfcc's loop write sets reject locals of nested loops)
        gb1 = os.path.join(workdir, 'a1.gb')
        rc, out = sh(['goto-instrument', '--unwindset', ','.join(uw), '--unwinding-assertions', gb, gb1], timeout=600)
        r.log += out
        if rc != 0:
            r.detail = 'goto-instrument --unwindset failed:\n' + out[-2000:]
            return r
        gb = gb1
    if g.enforce or g.replace or g.loop_contracts:
        gb2 = os.path.join(workdir, 'b.gb')
        cmd = ['goto-instrument', '--dfcc', g.entry]
        if g.enforce:
            cmd += ['--enforce-contract', g.enforce]
        for f in g.replace:
            cmd += ['--replace-call-with-contract', f]
        if g.loop_contracts:
            cmd += ['--apply-loop-contracts']
        cmd += [gb, gb2]
        rc, out = sh(cmd, timeout=600)
        r.log += out
        if rc != 0:
            r.detail = 'goto-instrument failed:\n' + out[-3000:]
            return r
        cur = gb2
    # every function reachable from the harness must have a body or have been replaced by its contract
    # (CBMC would silently treat a body-less function as returning nondet without havocking its pointer arguments)
    rc, out = sh(['goto-instrument', '--list-undefined-functions', cur], timeout=120)
    undef = {l.strip() for l in out.splitlines() if re.fullmatch(r'[\w:$]+', l.strip())}
    undef = {u for u in undef if not (u.startswith('__CPROVER') or u.startswith('contract::') or u.startswith('__builtin')
                                      or u.startswith('nondet_') or u in LIBC_OK)}
    if undef:
        rc, out = sh(['goto-instrument', '--reachable-call-graph', cur], timeout=120)
        reach = set(re.findall(r'-> ([\w:$]+)', out))
        bad = sorted(undef & reach)
        if bad:
            r.detail = f'functions without a body are reachable and not replaced by a contract: {bad}'
            return r
    backends = g.backend if isinstance(g.backend, (list, tuple)) else [g.backend]
    # CBMC 6 enables a default check set (incl. malloc-may-fail branches) that multiplies the formula size by ~20;
    # the check set is therefore always stated explicitly.
    base = ['cbmc', cur, '--drop-unused-functions', '--no-standard-checks', '--no-malloc-may-fail'] + g.checks + g.extra
    if g.unwind:
        base += ['--unwind', str(g.unwind), '--unwinding-assertions']
    for u in g.unwindset:
        base += ['--unwindset', u]
    if not g.loop_contracts and r.unwindset:
        base += ['--unwindset', ','.join(r.unwindset)]
    base += ['--object-bits', str(g.object_bits or 11)]
    last = None
    # the back ends of a portfolio run concurrently; results are consumed in the order they finish and the first one that
    # reaches a verdict decides (the others are killed)
    # "falsifier": the same program, every property except the vacuity canary, stopping at the FIRST failing property.
    # A changed function often makes the remaining (true) properties hard to prove; the verdict "this obligation fails,
    # here is the trace" must not wait for that.  Its SUCCESS is ignored (the full runs decide), its FAILURE decides.
    extra = []
    if g.expect != 'fail_only_full':
        rc0, out0 = sh(base + ['--show-properties', '--json-ui'], timeout=300)
        names = []
        try:
            for item in json.loads(out0[out0.index('['):]):
                for pr in item.get('properties', []) if isinstance(item, dict) else []:
                    if 'canary' not in (pr.get('description') or ''):
                        names.append(pr['name'])
        except Exception:
            names = []
        if names and len(names) < 6000:
            fcmd = base + BACKENDS[backends[0] if backends[0] in ('sat', 'cadical') else 'sat'] + ['--stop-on-fail', '--trace', '--json-ui']
            for nm in names:
                fcmd += ['--property', nm]
            extra.append(('falsifier', fcmd))
    for be, rc, out, dt in race(base, backends, g.timeout, extra):
        if be == 'falsifier':
            fr = parse_falsifier(out, g)
            if fr is None:
                continue          # no failure found (or no verdict): the full runs decide
            r.solver_s += dt
            r.backend = 'falsifier(' + (backends[0] if backends[0] in ('sat', 'cadical') else 'sat') + ')'
            r.props = fr['props']
            real = fr['failed']
            def is_unwind(p):
                return '.unwind.' in (p[0] or '') or 'unwinding assertion' in (p[1] or '')
            if any(is_unwind(p) and not any(re.match(c, p[0] or '') for c in g.unwind_claims) for p in real) or \
                    any('MODEL-BOUND' in (p[1] or '') for p in real):
                continue          # not a verdict about the code: let the full run classify it
            r.failed = real
            r.status = 'fail'
            r.trace_inputs = fr['trace']
            r.detail = 'first failing obligation found by the stop-on-fail run; the remaining obligations were not decided'
            break
        r.solver_s += dt
        r.backend = be
        r.log += f'\n--- backend {be} rc={rc} {dt:.1f}s\n'
        if rc == 124 or 'TIMEOUT' in out[-20:]:
            last = f'timeout after {g.timeout}s on {be}'
            continue
        props = parse_text(out)
        if props is None:
            last = f'{be}: ' + out[-1500:]
            r.log += out[-3000:]
            continue
        if re.search(r'ignoring (forall|exists)', out):
            last = f'{be}: quantifier ignored by back end'
            continue
        r.props = props
        failed = [p for p in r.props if p[2] != 'SUCCESS']
        canary = [p for p in failed if 'canary' in (p[1] or '')]
        real = [p for p in failed if 'canary' not in (p[1] or '')]
        if g.canary:
            have = [p for p in r.props if 'canary' in (p[1] or '') and (p[0] or '').startswith(g.entry + '.')]
            canary = [p for p in canary if (p[0] or '').startswith(g.entry + '.')]
            r.canary_ok = bool(have) and len(canary) == len(have)
        def is_unwind(p):
            return '.unwind.' in (p[0] or '') or 'unwinding assertion' in (p[1] or '')
        weak = [p for p in real if is_unwind(p) and not any(re.match(c, p[0] or '') for c in g.unwind_claims)]
        real = [p for p in real if p not in weak]
        r.failed = real
        r.status = 'fail' if real else 'pass'
        if weak and not real:
            r.status = 'undecided'
            r.detail = 'unwinding bound too small for ' + ', '.join(p[0] for p in weak[:5]) + ' (a limit of the harness, not a violation)'
            break
        if any('MODEL-BOUND' in (p[1] or '') for p in real):
            r.status = 'undecided'
            r.detail = 'a capacity bound of a container MODEL was exceeded (raise CXX_VEC_CAP or lower the harness bound)'
            break
        if real:
            r.trace_inputs = extract_trace(base + BACKENDS[be], real, g)
        break
    else:
        r.status = 'undecided'
        r.detail = last or 'no back end decided'
    r.wall_s = time.time() - t0
    return r


def parse_falsifier(out, g):
    """result of the --stop-on-fail --json-ui run: None unless a property FAILED; else its name/description and trace inputs"""
    try:
        data = json.loads(out[out.index('['):])
    except Exception:
        return None
    for item in data:
        if not isinstance(item, dict):
            continue
        cands = list(item.get('result', []))
        if 'property' in item and 'status' in item:
            cands.append(item)       # --stop-on-fail prints the failed property as a top-level object
        for res in cands:
            if str(res.get('status', '')).upper() in ('FAILURE', 'FAILED'):
                loc = res.get('sourceLocation') or {}
                line = loc.get('line')
                vals = {}
                for step in res.get('trace', []):
                    if step.get('stepType') == 'assignment' and not step.get('hidden'):
                        lhs = step.get('lhs', '')
                        fn = (step.get('sourceLocation') or {}).get('function', '')
                        if (fn == g.entry or lhs.startswith('in_') or lhs.startswith('__g') or lhs.startswith('__skel')) and '__dfcc' not in lhs \
                                and not lhs.startswith('__g_ntop') and not lhs.startswith('return_value'):
                            flatten(lhs, step.get('value', {}), vals)
                    if step.get('stepType') == 'failure' and not line:
                        line = (step.get('sourceLocation') or {}).get('line')
                p = (res.get('property'), res.get('description'), 'FAILURE', line)
                return {'props': [p], 'failed': [p], 'trace': {'property': res.get('property'), 'assignments': vals}}
    return None


PROP_RE = re.compile(r'^\[([^\]]+)\] (?:line (\d+) )?(.*): (SUCCESS|FAILURE|UNKNOWN|ERROR)$', re.M)


def parse_text(out):
    """property results from cbmc's plain output; None unless the run reached a verdict"""
    if 'VERIFICATION SUCCESSFUL' not in out and 'VERIFICATION FAILED' not in out:
        return None
    return [(m.group(1), m.group(3), m.group(4), m.group(2)) for m in PROP_RE.finditer(out)]


def extract_trace(cmd, failed, g):
    """re-run with --trace for the first failed property; return harness-level input assignments"""
    name = failed[0][0]
    cmd2 = [c for c in cmd] + ['--json-ui', '--trace', '--property', name]
    rc, out = sh(cmd2, timeout=g.timeout)
    try:
        data = json.loads(out[out.index('['):])
    except Exception:
        return {'raw': out[-4000:]}
    vals = {}
    for item in data:
        for res in item.get('result', []):
            for step in res.get('trace', []):
                if step.get('stepType') == 'assignment' and not step.get('hidden'):
                    lhs = step.get('lhs', '')
                    fn = (step.get('sourceLocation') or {}).get('function', '')
                    v = step.get('value', {})
                    if (fn == g.entry or lhs.startswith('in_') or lhs.startswith('__g') or lhs.startswith('__skel')) and '__dfcc' not in lhs \
                            and not lhs.startswith('__g_ntop') and not lhs.startswith('return_value'):
                        flatten(lhs, v, vals)
    return {'property': name, 'assignments': vals}


def flatten(lhs, v, out, depth=0):
    """flatten a CBMC JSON trace value (struct members / array elements) into scalar assignments"""
    if not isinstance(v, dict) or depth > 6:
        return
    if 'members' in v:
        for m in v['members']:
            flatten(f"{lhs}.{m.get('name')}", m.get('value', {}), out, depth + 1)
    elif 'elements' in v:
        for e in v['elements'][:80]:
            flatten(f"{lhs}[{e.get('index')}]", e.get('value', {}), out, depth + 1)
    else:
        out[lhs] = v.get('data', v.get('name'))
