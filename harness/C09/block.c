/* C09: chacha20_block == RFC 8439 block function for every key, nonce and counter (constant loops fully unwound) */
#include "chacha20.c"
#include "rfc8439.h"
#include "common.h"
void h_block(void)
{
  crypto__Key in_key; crypto__Nonce in_nonce; uint32_t in_counter; arr_u8_64 out;
  uint8_t ref[64];
  __CPROVER_assume(__g_I < 64);
  __g_C = in_counter;
  rfc8439_block(in_key.bytes._, in_nonce.bytes._, in_counter, ref);
  __CPROVER_assume(__g_K == ref[__g_I]);            /* definition of the ghost constant */
  crypto__chacha20_block(&in_key, &in_nonce, in_counter, &out);
  for (int i = 0; i < 64; i++) __CPROVER_assert(out._[i] == ref[i], "chacha20_block equals the RFC 8439 block function");
  CANARY_POINT();
}
