/* C16: protocol::decode on EVERY byte string (symbolic length, exact-size object): memory safety, no exception, and every
   field of an accepted message is taken verbatim from the input at its wire offset (=> re-encoding yields a prefix of the input,
   given the encoder layout proved in C15).  Variable-length copies go through the contracts of the container model
   (str_from_n / vec_u8_assign_range: fresh storage, content observed at the ghost index __g_vec_b). */
#include "message.c"
#include "common.h"
#define BE32(p) ((uint32_t)(((uint32_t)(p)[0] << 24) | ((uint32_t)(p)[1] << 16) | ((uint32_t)(p)[2] << 8) | (uint32_t)(p)[3]))
#define BE64(p) (((uint64_t)BE32(p) << 32) | (uint64_t)BE32((p) + 4))
uint64_t __g_k;   /* arbitrary-but-fixed index < 32 into an id */
#ifdef SAFETY_ONLY   /* memory safety / totality half of the case: the verbatim clauses are checked by the other half */
#define VB(c, m) ((void)0)
#else
#define VB(c, m) __CPROVER_assert(c, m)
#endif
#ifdef ONLY_POW      /* further case split of the announce case over "version >= 3" */
#define POW_CASE(b) __CPROVER_assume(((b)[0] >= 3) == (ONLY_POW == 1))
#else
#define POW_CASE(b) ((void)0)
#endif
void h_decode(void)
{
  uint64_t in_n;
  __CPROVER_assume(in_n <= 0x00007FFFFFFFFFFFul);
  uint8_t *in_buf = malloc(in_n ? in_n : 1);     /* an object of exactly the input's size */
  __CPROVER_assume(in_buf != 0 && __g_k < 32);
#ifdef ONLY_TYPE
  if (in_n >= 2) __CPROVER_assume(ONLY_TYPE == 0 ? (in_buf[1] < 1 || in_buf[1] > 6) : in_buf[1] == ONLY_TYPE);   /* case split over the type byte (all seven cases are run) */
#endif
  if (in_n >= 1) POW_CASE(in_buf);
  __exc = 0;
  opt_protocol__Message r = protocol__decode((span_u8){in_buf, in_n});
  __CPROVER_assert(__exc == 0, "no exception escapes decode");
  const uint8_t *b = in_buf;
  if (r.has) {
    VB(in_n >= 2 && r.v.version == b[0] && r.v.type == b[1], "version and type are the first two bytes");
    VB(r.v.version >= 1 && r.v.version <= 4, "only supported versions are accepted");
    VB(r.v.type >= 1 && r.v.type <= 6 && r.v.payload.index == r.v.type - 1, "payload alternative matches the type byte");
    const uint8_t *d = b + 2;
    uint64_t rem = in_n - 2;
    if (r.v.type == 1) {
      protocol__AnnouncePayload *p = &r.v.payload._0;
      _Bool pow = r.v.version >= 3;
      VB(rem >= 80 + (pow ? 8u : 0u), "announce: fixed part inside the input");
      uint64_t el = BE32(d + 4), ml = BE32(d + 8), al = BE32(d + 12);
      VB(rem >= 80 + el + ml + al + (pow ? 8u : 0u), "announce: variable part inside the input");
      VB(p->ttl == (int64_t)BE32(d), "announce: ttl verbatim");
      VB(p->endpoint.n == el && p->manifest_uri.n == ml && p->assigned_shards.n == al, "announce: lengths verbatim");
      VB(p->chunk_id._[__g_k] == d[16 + __g_k] && p->peer_id._[__g_k] == d[48 + __g_k], "announce: ids verbatim");
      if (__g_vec_b < el) VB((uint8_t)p->endpoint.p[__g_vec_b] == d[80 + __g_vec_b], "announce: endpoint bytes verbatim");
      if (__g_vec_b < ml) VB((uint8_t)p->manifest_uri.p[__g_vec_b] == d[80 + el + __g_vec_b], "announce: manifest bytes verbatim");
      if (__g_vec_b < al) VB(p->assigned_shards.p[__g_vec_b] == d[80 + el + ml + __g_vec_b], "announce: shard list verbatim");
      if (pow) VB(p->work_nonce == BE64(d + 80 + el + ml + al), "announce: PoW nonce verbatim (version >= 3)");
    } else if (r.v.type == 2) {
      protocol__RequestPayload *p = &r.v.payload._1;
      VB(rem >= 64, "request inside the input");
      VB(p->chunk_id._[__g_k] == d[__g_k] && p->requester._[__g_k] == d[32 + __g_k], "request: ids verbatim");
    } else if (r.v.type == 3) {
      protocol__ChunkPayload *p = &r.v.payload._2;
      VB(rem >= 40, "chunk: fixed part inside the input");
      uint64_t dl = BE32(d + 4);
      VB(rem >= 40 + dl, "chunk: data inside the input");
      VB(p->ttl == (int64_t)BE32(d) && p->data.n == dl, "chunk: ttl and length verbatim");
      VB(p->chunk_id._[__g_k] == d[8 + __g_k], "chunk: id verbatim");
      if (__g_vec_b < dl) VB(p->data.p[__g_vec_b] == d[40 + __g_vec_b], "chunk: data bytes verbatim");
    } else if (r.v.type == 4) {
      protocol__AcknowledgePayload *p = &r.v.payload._3;
      VB(rem >= 65, "acknowledge inside the input");
      VB(p->chunk_id._[__g_k] == d[1 + __g_k] && p->peer_id._[__g_k] == d[33 + __g_k], "acknowledge: ids verbatim");
#ifndef NO_CANONICAL_BOOL
      VB((uint8_t)(p->accepted ? 1 : 0) == d[0], "acknowledge: flag byte verbatim (re-encodes to the same byte)");
#else
      VB(p->accepted == (d[0] != 0), "acknowledge: flag decoded from its byte");
#endif
    } else if (r.v.type == 5) {
      protocol__TransportHandshakePayload *p = &r.v.payload._4;
      VB(rem >= 13, "handshake inside the input");
      VB(p->public_identity == BE32(d) && p->work_nonce == BE64(d + 4) && p->requested_version == d[12], "handshake: fields verbatim");
    } else {
      protocol__HandshakeAckPayload *p = &r.v.payload._5;
      VB(rem >= 6, "handshake ack inside the input");
      VB(p->negotiated_version == d[1] && p->responder_public == BE32(d + 2), "handshake ack: fields verbatim");
#ifndef NO_CANONICAL_BOOL
      VB((uint8_t)(p->accepted ? 1 : 0) == d[0], "handshake ack: flag byte verbatim (re-encodes to the same byte)");
#else
      VB(p->accepted == (d[0] != 0), "handshake ack: flag decoded from its byte");
#endif
    }
  }
  CANARY_POINT();
}
