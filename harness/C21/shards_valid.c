/* C21 (assigned shards): the admission test of Node::handle_announce on the shares an announcement assigns to the receiver -- the
   declaration of `shards_valid`, lowered as a function of its own (@slice).  For EVERY announcement assigning at most A share indices
   and every manifest carrying at most S shares (all index values): the test admits the announcement exactly when every assigned index
   is the index of a share the manifest actually carries. */
#include "announce_shards.c"
#include "common.h"
#ifndef A
#define A 3
#endif
#ifndef S
#define S 4
#endif
void h_shards_valid(void)
{
  static protocol__AnnouncePayload pl; static protocol__Manifest mf; static uint8_t assigned[A]; static protocol__KeyShard shards[S];
  { uint8_t a[A]; for (int k = 0; k < A; ++k) assigned[k] = a[k]; protocol__KeyShard b[S]; for (int k = 0; k < S; ++k) shards[k] = b[k]; }
  uint64_t in_na, in_ns; __CPROVER_assume(in_na <= A && in_ns <= S);
  pl.assigned_shards.p = assigned; pl.assigned_shards.n = in_na; pl.assigned_shards.cap = A;
  mf.shards.p = shards; mf.shards.n = in_ns; mf.shards.cap = S;
  _Bool got = Node__handle_announce__slice_shards_valid(&mf, &pl);
  _Bool want = 1;
  for (uint64_t i = 0; i < A; ++i) if (i < in_na) { _Bool carried = 0; for (uint64_t j = 0; j < S; ++j) if (j < in_ns && shards[j].index == assigned[i]) carried = 1; if (!carried) want = 0; }
  __CPROVER_assert(got == want, "an announcement is admitted exactly when every share index it assigns is carried by the announced manifest");
  CANARY_POINT();
}
