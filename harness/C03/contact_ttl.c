/* C03 (provider contacts): the statements of Node::handle_announce that compute the lifetime of the recorded provider contact, lowered
   as a function of their own (@slice) and checked against its contract for EVERY announced TTL, admitted manifest TTL and sanitised
   window: the contact lives no longer than the manifest's admitted lifetime. */
#include "announce_ttl.c"
#include "common.h"
void h_contact_ttl(void)
{
  Node *in_node = malloc(sizeof(Node)); protocol__AnnouncePayload *in_payload = malloc(sizeof(protocol__AnnouncePayload)); opt_i64 *in_ttl = malloc(sizeof(opt_i64));
  __CPROVER_assume(in_node && in_payload && in_ttl);
  int64_t r = Node__handle_announce__slice_contact_ttl(in_node, in_payload, in_ttl);
  CANARY_POINT();
}
