from vdriver import Group
META = {'level': 'other'}
def groups(tier):
    CH = ['--bounds-check', '--pointer-check', '--signed-overflow-check', '--div-by-zero-check', '--undefined-shift-check']
    cap = 88 if tier == 'quick' else 96
    return [Group('decode.total', 'manifest_dec', 'C18/decode.c', entry='h_decode', replace=['protocol__base64_decode', 'str_substr', 'cxx_rfind0_cstr', 'str_from_n'],
                  unwind=6, unwind_by={'cxx_strlen': 8, 'cxx_memcmp': 40, 'cxx_copy_u8': 40, 'protocol__read_u64': 9},
                  defines=[f'PAYLOAD_CAP={cap}', f'CXX_VEC_CAP={cap + 8}', 'CXX_FIXED_STORAGE'], kind='bounded', timeout=600, backend=['cvc5', 'z3', 'cadical'], checks=CH, replay='expiry',
                  bound=f'payload of at most {cap} bytes (any content; the text itself is unbounded, base64_decode by contract)',
                  clause='decode_manifest returns a manifest or raises invalid_argument; no out-of-bounds access, signed overflow or other undefined behaviour'),
            Group('base64.total', 'manifest_dec', 'C18/decode.c', entry='h_base64', unwind=40, unwind_by={'cxx_fill_int': 257, 'protocol__base64_decode#0': 66},
                  defines=['B64MAX=16', 'CXX_VEC_CAP=24', 'CXX_FIXED_STORAGE'], kind='bounded', timeout=600, backend=['sat', 'cadical'], checks=CH,
                  bound='texts of at most 16 characters', clause='base64_decode: memory safe, only invalid_argument, at most 3 bytes per 4 characters')]

def replay(group, trace):
    """the REAL decode_manifest under UBSan + ASan (no recovery) on extreme expiry fields and structured garbage"""
    import sys, os
    root = os.path.dirname(os.path.dirname(os.path.abspath(__file__)))
    sys.path.insert(0, os.path.join(root, 'replay'))
    import replaylib as R
    exe = R.build_full('C18.cpp', with_daemon=False, extra=['-fsanitize=undefined,address', '-fno-sanitize-recover=all', '-g'])
    rc, out = R.run(exe, [int(os.environ.get('VERIF_SEED', '0') or 0)], timeout=300)
    if rc == 0:
        return False, out.strip().splitlines()[-1][:300]
    lines = [l for l in out.strip().splitlines() if 'runtime error' in l or 'REPRODUCED' in l or 'AddressSanitizer' in l]
    last_input = [l for l in out.strip().splitlines() if l.startswith('expiry field')][-1:]
    return True, (' '.join(last_input) + ': ' + ' | '.join(lines[:2]))[:600]
