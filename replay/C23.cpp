// native replay for C23: the REAL Node.  The same peer's upload of the same chunk is started twice (two REQUESTs for one chunk,
// per-peer limit 2), then both are acknowledged.  exit 1 = the peer's in-use slot count is not back to zero.
#include "ephemeralnet/core/Node.hpp"
#include <cstdio>
using namespace ephemeralnet;
int main() {
    Config config{}; config.identity_seed = 23u; config.upload_max_transfers_per_peer = 2; config.upload_max_parallel_transfers = 4;
    PeerId self{}, peer{}; self[0] = 0xD1; peer[0] = 0xD2;
    Node node(self, config);
    ChunkId chunk{}; chunk[0] = 0x23;
    Node::PendingUploadRequest rq{}; rq.chunk_id = chunk; rq.peer_id = peer; rq.payload_size = 10;
    node.note_upload_start(rq, 10);
    node.note_upload_start(rq, 10);            // the second dispatch of the same (peer, chunk)
    const auto key = peer_id_to_string(peer);
    const auto during = node.active_uploads_per_peer_.count(key) ? node.active_uploads_per_peer_.at(key) : 0;
    node.note_upload_end(peer, chunk, true);   // first acknowledgement
    node.note_upload_end(peer, chunk, true);   // second acknowledgement
    const auto after = node.active_uploads_per_peer_.count(key) ? node.active_uploads_per_peer_.at(key) : 0;
    std::printf("active uploads of the peer: %zu, in-use count during: %zu, after both acknowledgements: %zu\n", node.active_uploads_.size(), static_cast<std::size_t>(during), static_cast<std::size_t>(after));
    if (after != 0 || !node.active_uploads_.empty()) { std::printf("REPRODUCED: all of the peer's uploads were acknowledged but its in-use slot count stays at %zu (a repeated (peer, chunk) start was counted twice)\n", static_cast<std::size_t>(after)); return 1; }
    std::printf("the peer's in-use slot count returned to zero\n");
    return 0;
}
