#!/usr/bin/env python3
"""cxx2c: mechanical lowering of selected functions of /repo's C++ sources to C for CBMC.

Driven by a .spec file (see contracts/*.spec).  Every AST node kind / std entity that has no rule
raises LoweringError (exit 2) -- the tool never guesses.  The emitted C keeps every statement of the
lowered functions; what is dropped is listed in DROPPED below and copied into evidence files."""
import sys, os, re, json
sys.path.insert(0, os.path.dirname(os.path.abspath(__file__)))
from cxxast import Index, dump_ast, LoweringError, has_body, params, body, REPO
from cxxtypes import T, parse_type, PRIMS, SHORT

DROPPED = [
    'namespaces and access control (names are mangled ns__Class__fn)',
    'const/constexpr/noexcept/[[nodiscard]]/inline qualifiers (constexpr tables become static const)',
    'references become pointers; `this` becomes an explicit `self` parameter',
    'exceptions become a ghost kind in the global __exc, tested after every call that may throw',
    'destructors of std containers and allocator failure (std::bad_alloc is assumed not to occur)',
    'std::array/span/optional/vector/string are replaced by the C value models in libmodel/ (named in evidence)',
]

EXC = {'std::invalid_argument': 1, 'std::runtime_error': 2, 'std::length_error': 3, 'std::out_of_range': 4,
       'std::logic_error': 5, 'std::bad_optional_access': 6, 'std::system_error': 7, 'std::bad_alloc': 8,
       'std::filesystem::filesystem_error': 9, 'std::overflow_error': 10, 'std::domain_error': 11,
       'std::range_error': 12, 'std::bad_variant_access': 13, 'std::exception': 99}


SYSREC = {'in_addr': 'cxx_in_addr', 'in6_addr': 'cxx_in6_addr', 'timeval': 'cxx_timeval',
          'std::random_device': 'cxx_random_device', 'std::mt19937_64': 'cxx_rng', 'std::mt19937': 'cxx_rng', 'std::filesystem::path': 'cxx_path'}


def mangle(q):
    q = re.sub(r'^ephemeralnet::', '', q)
    q = q.replace('operator()', 'op_call').replace('operator==', 'op_eq').replace('operator<', 'op_lt')
    return re.sub(r'[^A-Za-z0-9_]', '_', q.replace('::', '__'))


class Spec:
    """Parsed .spec file."""
    def __init__(self, path):
        self.path = path
        self.unit = os.path.splitext(os.path.basename(path))[0]
        self.source = None
        self.define = []
        self.declare = []
        self.lambdas = []   # (function, variable): lambdas of big functions lowered on their own
        self.slices = []    # (function, name, from-variable, until-kind, until-name): statement ranges lowered as functions
        self.types = []
        self.globals = []
        self.prologue = []
        self.epilogue = []
        self.fn = {}       # name -> {'contract': [...], 'loops': {k: [...]}, 'flags': set()}
        self.options = {}
        cur = None
        sec = None
        def lines_of(pth, depth=0):
            for raw in open(pth):
                if raw.startswith('@include '):
                    if depth > 4:
                        raise LoweringError('@include nesting too deep')
                    yield from lines_of(os.path.join(os.path.dirname(path), raw.split()[1]), depth + 1)
                else:
                    yield raw
        for raw in lines_of(path):
            line = raw.rstrip('\n')
            st = line.strip()
            if st.startswith('@'):
                parts = st.split()
                d = parts[0]
                if d == '@source':
                    self.source = parts[1]
                elif d == '@define':
                    self.define += parts[1:]
                elif d == '@declare':
                    self.declare += parts[1:]
                elif d == '@lambda':
                    self.lambdas.append((parts[1], parts[2]))
                elif d == '@slice':
                    # @slice <function> <name> from_decl <var> until_ref <identifier> | until_decl <var>
                    if len(parts) != 7 or parts[3] not in ('from_decl', 'from_ref') or parts[5] not in ('until_ref', 'until_decl'):
                        raise LoweringError(f'{path}: @slice <function> <name> from_decl|from_ref <var> until_ref|until_decl <name>')
                    self.slices.append((parts[1], parts[2], parts[4], parts[5], parts[6], parts[3]))
                elif d == '@types':
                    self.types += parts[1:]
                elif d == '@globals':
                    self.globals += parts[1:]
                elif d == '@option':
                    self.options[parts[1]] = parts[2] if len(parts) > 2 else '1'
                elif d == '@prologue':
                    sec = self.prologue
                elif d == '@epilogue':
                    sec = self.epilogue
                elif d == '@fn':
                    cur = self.fn.setdefault(parts[1], {'contract': [], 'loops': {}, 'flags': set(parts[2:]),
                                                        'pre': [], 'post': []})
                    sec = None
                elif d == '@contract':
                    sec = cur['contract']
                elif d == '@entry':
                    sec = cur['pre']
                elif d == '@loop':
                    sec = cur['loops'].setdefault(int(parts[1]), [])
                elif d == '@loopbody':
                    sec = cur.setdefault('loopbody', {}).setdefault(int(parts[1]), [])
                elif d == '@end':
                    sec = None
                else:
                    raise LoweringError(f'{path}: unknown directive {d}')
                continue
            if sec is not None:
                sec.append(line)
            elif st and not st.startswith('#'):
                raise LoweringError(f'{path}: text outside a section: {line!r}')


class Lowering:
    def __init__(self, spec):
        self.spec = spec
        docs = dump_ast(spec.source, spec.options.get('astfilter', 'ephemeralnet').replace('none', ''),
                        tolerate=spec.options.get('ast_errors') == 'tolerate')
        self.ix = Index(docs, spec.source)
        self.typedefs = []          # ordered C typedef text
        self.typedef_names = {}
        self.helpers = set()
        self.fnmap = {}             # decl id -> C name
        self.fninfo = {}            # C name -> dict(node, qname, maythrow)
        self.globals_c = []
        self.protos = []
        self.bodies = []
        self.tmpn = 0
        self.pre = []               # prelude statements for the statement being emitted
        self.cond_depth = 0
        self.cur = None             # current function info
        self.records = {}           # qualified record name -> C name
        self.record_inits = {}      # C name -> has nontrivial default member init
        self.static_locals = []
        self.stats = {'functions': 0, 'nodes': 0, 'loops': 0}
        self.maythrow = set()
        self.lambdas = {}
        import cxxtypes
        cxxtypes.PREPROCESS = self.type_pre

    def type_pre(self, s):
        """`Alias{}.size()` inside a type string -> the array extent of the alias (clang prints the expression verbatim)"""
        def sub(m):
            t = self.resolve(parse_type(m.group(1)))
            if t.kind == 'tmpl' and t.name == 'std::array':
                return str(t.args[1].n)
            raise LoweringError(f'cannot evaluate {m.group(0)} inside a type')
        return re.sub(r'([A-Za-z_][\w:]*)\{\}\.size\(\)', sub, s)

    # ------------------------------------------------------------------ types
    def resolve(self, t):
        """Normalise a type tree: resolve typedefs, member types, strip std noise."""
        k = t.kind
        if k in ('ptr', 'ref', 'rref'):
            r = T(k, sub=self.resolve(t.sub), const=t.const)
            return r
        if k == 'carr':
            return T('carr', sub=self.resolve(t.sub), n=t.n)
        if k == 'prim' or k == 'num':
            return t
        if k == 'func':
            return T('func', sub=self.resolve(t.sub), args=[self.resolve(a) for a in t.args])
        if k == 'member':
            base = self.resolve(t.sub)
            m = t.name
            if base.kind == 'ptr' and m == 'element_type':
                return base.sub       # std::shared_ptr<T>::element_type
            elem = None
            if base.kind == 'tmpl' and base.name in ('std::array', 'std::vector', 'std::span', 'std::basic_string',
                                                      'std::deque', 'std::basic_string_view'):
                elem = base.args[0]
            if m in ('size_type',):
                return T('prim', 'unsigned long')
            if m in ('difference_type',):
                return T('prim', 'long')
            if elem is not None:
                if m in ('value_type', 'element_type'):
                    return elem
                if m in ('pointer', 'const_pointer', 'iterator', 'const_iterator'):
                    if base.name in ('std::array', 'std::span'):
                        return T('ptr', sub=elem)
                    return T('tmpl', 'iter', args=[base])
                if m in ('reference', 'const_reference'):
                    return T('ref', sub=elem)
            if base.kind == 'tmpl' and base.name == 'iter' and m in ('pointer', 'reference', 'value_type'):
                c0 = base.args[0]
                if c0.kind == 'tmpl' and c0.name in ('std::unordered_map', 'std::map'):
                    ent = T('rec', self.ctype(c0) + '_ent')
                    self.records[ent.name] = ent.name
                    return T('ptr', sub=ent) if m == 'pointer' else (T('ref', sub=ent) if m == 'reference' else ent)
            if base.kind == 'tmpl' and base.name == 'std::chrono::time_point' and m == 'duration':
                return base.args[1] if len(base.args) > 1 else self.resolve(parse_type('std::chrono::nanoseconds'))
            if base.kind == 'tmpl' and base.name == 'std::chrono::duration' and m == 'rep':
                return base.args[0]
            if base.kind == 'tmpl' and base.name == 'std::optional' and m == 'value_type':
                return base.args[0]
            if base.kind == 'tmpl' and base.name in ('std::unordered_map', 'std::map'):
                if m in ('iterator', 'const_iterator'):
                    return T('tmpl', 'iter', args=[base])
                if m == 'mapped_type':
                    return base.args[1]
                if m == 'key_type':
                    return base.args[0]
            raise LoweringError(f'no rule for member type {t.sub!r}::{m}')
        if k == 'tmpl':
            name = t.name
            if name in ('std::shared_ptr', 'std::weak_ptr', 'std::__shared_ptr', 'std::__weak_ptr', 'std::__shared_ptr_access') and len(t.args) >= 1:
                # owning / observing smart pointers are lowered to plain pointers: reference counts and the lifetime they manage
                # are not modelled (objects live as long as the harness keeps them); weak_ptr::lock() yields the pointer itself
                return T('ptr', sub=self.resolve(t.args[0]))
            args = [self.resolve(a) for a in t.args]
            if name == '__gnu_cxx::__normal_iterator' and len(args) == 2:
                return T('tmpl', 'iter', args=[args[1]])
            if name == 'std::__detail::_Node_iterator_base' and args and args[0].kind == 'tmpl' and args[0].name == 'std::pair':
                return T('tmpl', 'iter', args=[T('tmpl', 'std::unordered_map', args=list(args[0].args))])
            if name in ('std::__detail::_Node_iterator', 'std::__detail::_Node_const_iterator', 'std::_Rb_tree_iterator',
                        'std::_Rb_tree_const_iterator') and args and args[0].kind == 'tmpl' and args[0].name == 'std::pair':
                return T('tmpl', 'iter', args=[T('tmpl', 'std::unordered_map', args=list(args[0].args))])
            if name in ('std::_Deque_iterator',) and len(args) == 3:
                return T('tmpl', 'iter', args=[T('tmpl', 'std::deque', args=[args[0]])])
            if name in ('std::shared_ptr', 'std::weak_ptr', 'std::__shared_ptr', 'std::__weak_ptr') and len(args) >= 1:
                # owning / observing smart pointers are lowered to plain pointers: reference counts and the lifetime they manage
                # are not modelled (objects live as long as the harness keeps them); weak_ptr::lock() yields the pointer itself
                return T('ptr', sub=args[0])
            if name in ('std::vector', 'std::deque', 'std::list') and len(args) >= 1:
                args = args[:1]
            if name in ('std::basic_string', 'std::basic_string_view'):
                args = args[:1]
            if name in ('std::unordered_map', 'std::map'):
                args = args[:2]
            if name in ('std::unordered_set', 'std::set'):
                args = args[:1]
            if name == 'std::span':
                args = args[:1]
            if name == 'std::chrono::time_point':
                if len(args) == 1:
                    args = args + [self.resolve(parse_type('std::chrono::duration<long, std::ratio<1, 1000000000>>'))]
            if name == 'std::chrono::duration' and len(args) == 1:
                args = args + [T('tmpl', 'std::ratio', args=[T('num', n=1), T('num', n=1)])]
            if name == 'std::ratio' and len(args) == 1:
                args = args + [T('num', n=1)]
            return T('tmpl', name, args=args, const=t.const)
        if k == 'rec':
            name = t.name
            if name in ('true', 'false'):
                return T('num', n=1 if name == 'true' else 0)
            if name in PRIMS:
                return T('prim', name)
            if name.endswith('::size_type'):
                return T('prim', 'unsigned long')
            if name.endswith('::difference_type'):
                return T('prim', 'long')
            if name in ('std::string', 'std::__cxx11::basic_string<char>'):
                return T('tmpl', 'std::basic_string', args=[T('prim', 'char')])
            if name == 'std::string_view':
                return T('tmpl', 'std::basic_string_view', args=[T('prim', 'char')])
            CH = {'nanoseconds': 1000000000, 'microseconds': 1000000, 'milliseconds': 1000, 'seconds': 1}
            m = re.match(r'std::chrono::(\w+)$', name)
            if m and m.group(1) in CH:
                return T('tmpl', 'std::chrono::duration', args=[T('prim', 'long'), T('tmpl', 'std::ratio', args=[
                    T('num', n=1), T('num', n=CH[m.group(1)])])])
            if m and m.group(1) in ('minutes', 'hours'):
                return T('tmpl', 'std::chrono::duration', args=[T('prim', 'long'), T('tmpl', 'std::ratio', args=[
                    T('num', n=60 if m.group(1) == 'minutes' else 3600), T('num', n=1)])])
            if name in ('std::chrono::steady_clock', 'std::chrono::system_clock', 'std::chrono::_V2::steady_clock',
                        'std::chrono::_V2::system_clock'):
                return T('rec', name.replace('_V2::', ''))
            if name in ('std::nullopt_t', 'std::monostate'):
                return T('rec', name)
            mtp = re.match(r'std::chrono::(?:_V2::)?(steady_clock|system_clock)::(time_point|duration)$', name)
            if mtp:
                ns = self.resolve(parse_type('std::chrono::nanoseconds'))
                if mtp.group(2) == 'duration':
                    return ns
                return T('tmpl', 'std::chrono::time_point', args=[T('rec', 'std::chrono::' + mtp.group(1)), ns])
            if name == 'std::filesystem::path' and self.spec.options.get('path_model') == 'text':
                # '@option path_model text': a path is its text (POSIX: generic and native format coincide, '/' is the only
                # separator); filename() is modelled by cxx_path_filename (libmodel)
                self.models_note = getattr(self, 'models_note', set()) | {'std::filesystem::path as its POSIX text'}
                return self.resolve(parse_type('std::string'))
            if name in SYSREC:
                return T('rec', name)
            # user typedef / alias / record / enum
            cands = self.ix.lookup(name, kinds=('TypeAliasDecl', 'TypedefDecl', 'CXXRecordDecl', 'EnumDecl'))
            if not cands:
                vc = self.ix.lookup(name, kinds=('VarDecl',))
                if vc:
                    inits = [c for c in vc[0][1].get('inner', []) if c.get('kind')]
                    v = self.consteval(inits[0]) if inits else None
                    if v is not None:
                        return T('num', n=int(re.sub(r'[uUlL]+$', '', str(v))))
            if not cands:
                raise LoweringError(f'unknown type name {name!r}')
            kinds = {n['kind'] for _, n in cands}
            if 'TypeAliasDecl' in kinds or 'TypedefDecl' in kinds:
                q, n = [c for c in cands if c[1]['kind'] in ('TypeAliasDecl', 'TypedefDecl')][0]
                ty = n['type']
                return self.resolve(parse_type(ty.get('desugaredQualType') or ty['qualType']))
            if 'EnumDecl' in kinds:
                q, n = [c for c in cands if c[1]['kind'] == 'EnumDecl'][0]
                return T('tmpl', 'enum', args=[T('rec', q)])
            q = cands[0][0]
            return T('rec', q, const=t.const)
        raise LoweringError(f'resolve: {t!r}')

    def tyof(self, n):
        ty = n.get('type')
        if not ty:
            raise LoweringError(f'node {n.get("kind")} has no type')
        s = ty.get('desugaredQualType') or ty['qualType']
        try:
            return self.resolve(parse_type(s))
        except LoweringError:
            if 'desugaredQualType' in ty:
                return self.resolve(parse_type(ty['qualType']))
            raise

    def short(self, t):
        c = self.ctype(t)
        c = SHORT.get(c, c)
        return re.sub(r'[^A-Za-z0-9_]', '_', c.replace('*', 'p').replace('struct ', ''))

    def period(self, t):
        """duration type -> (num, den)"""
        r = t.args[1]
        return (r.args[0].n, r.args[1].n)

    def ctype(self, t):
        t = t if isinstance(t, T) else self.resolve(parse_type(t))
        k = t.kind
        if k == 'prim':
            return PRIMS[t.name]
        if k in ('ptr', 'ref', 'rref'):
            if t.sub.kind == 'func':
                raise LoweringError('function pointer types are not lowered')
            if t.sub.kind == 'carr':
                return self.ctype(t.sub.sub) + '*'
            return self.ctype(t.sub) + '*'
        if k == 'carr':
            return self.ctype(t.sub) + '*'
        if k == 'rec':
            return self.record(t.name)
        if k == 'tmpl':
            n = t.name
            if n == 'enum':
                return self.enum(t.args[0].name)
            if n == 'std::array':
                e = t.args[0]
                name = f'arr_{self.short(e)}_{t.args[1].n}'
                self.typedef(name, f'typedef struct {name} {{ {self.ctype(e)} _[{t.args[1].n}]; }} {name};')
                return name
            if n == 'std::span':
                e = t.args[0]
                name = f'span_{self.short(e)}'
                self.typedef(name, f'typedef struct {name} {{ {self.ctype(e)} *p; uint64_t n; }} {name};')
                return name
            if n in ('std::vector', 'std::deque'):
                e = t.args[0]
                name = f'vec_{self.short(e)}'
                self.typedef(name, f'typedef struct {name} {{ {self.ctype(e)} *p; uint64_t n; uint64_t cap; }} {name};')
                return name
            if n == 'iter':
                c = t.args[0]
                if c.kind == 'tmpl' and c.name in ('std::vector', 'std::deque', 'std::basic_string',
                                                   'std::basic_string_view'):
                    return self.ctype(c.args[0]) + '*'
                if c.kind == 'tmpl' and c.name in ('std::unordered_map', 'std::map'):
                    return self.ctype(c) + '_ent*'
                raise LoweringError(f'iterator of {c!r}')
            if n == 'std::basic_string':
                self.typedef('str', 'typedef struct str { char *p; uint64_t n; uint64_t cap; } str;')
                return 'str'
            if n == 'std::basic_string_view':
                self.typedef('strview', 'typedef struct strview { char *p; uint64_t n; } strview;')
                return 'strview'
            if n == 'std::optional':
                e = t.args[0]
                name = f'opt_{self.short(e)}'
                self.typedef(name, f'typedef struct {name} {{ _Bool has; {self.ctype(e)} v; }} {name};')
                return name
            if n == 'std::pair':
                a, b = t.args
                name = f'pair_{self.short(a)}_{self.short(b)}'
                self.typedef(name, f'typedef struct {name} {{ {self.ctype(a)} first; {self.ctype(b)} second; }} {name};')
                return name
            if n == 'std::chrono::duration':
                return 'int64_t' if t.args[0].kind == 'prim' and t.args[0].name != 'double' else 'double'
            if n == 'std::chrono::time_point':
                return 'int64_t'
            if n in ('std::unordered_map', 'std::map'):
                kt, vt = t.args
                name = f'map_{self.short(kt)}_{self.short(vt)}'
                # SINGLE-KEY VIEW of an associative container: the model holds at most THE entry for the key the function
                # under contract uses (e[0]); e[1] is the storage behind end().  Key values are not compared: every key
                # expression of one function is taken to denote the same key (stated in evidence; exact for per-key
                # properties, all other entries are the untouched frame).
                self.typedef(name, f'typedef struct {name}_ent {{ {self.ctype(kt)} first; {self.ctype(vt)} second; }} {name}_ent;\n'
                             f'typedef struct {name} {{ {name}_ent e[2]; uint64_t n; }} {name};\n'
                             f'static inline {self.ctype(vt)} *{name}_index({name} *m) '
                             f'{{ if (!m->n) {{ {name}_ent z = {{0}}; m->e[0] = z; m->n = 1; }} return &m->e[0].second; }}')
                return name
            if n == 'std::variant':
                name = 'var_' + '_'.join(self.short(a) for a in t.args)
                if len(name) > 60:
                    import hashlib
                    name = 'var_' + hashlib.sha1(name.encode()).hexdigest()[:10]
                alts = ' '.join(f'{self.ctype(a)} _{i};' for i, a in enumerate(t.args))
                self.typedef(name, f'typedef struct {name} {{ uint8_t index; {alts} }} {name};')
                return name
            if n == 'std::initializer_list':
                return self.ctype(T('tmpl', 'std::span', args=[t.args[0]]))
            if n in ('std::atomic', 'std::__atomic_base'):
                return self.ctype(t.args[0])      # sequential semantics: an atomic is its value
            if n in ('std::basic_ostringstream', 'std::basic_ostream'):
                # output string stream: its text and the formatting state that the lowered code can set (base, case, width, fill)
                self.ctype(T('tmpl', 'std::basic_string', args=[T('prim', 'char')]))
                self.typedef('cxx_oss', 'typedef struct cxx_oss { str buf; int base; _Bool upper; uint64_t width; char fill; } cxx_oss;')
                self.helpers.add('oss')
                self.helpers.add('str')
                return 'cxx_oss'
            if n in ('std::mersenne_twister_engine', 'std::uniform_int_distribution'):
                return 'cxx_rng'   # opaque: every draw is an arbitrary value of the result type (PRNG not modelled)
        raise LoweringError(f'no C type for {t!r}')

    def typedef(self, name, text):
        if name not in self.typedef_names:
            self.typedef_names[name] = text
            self.typedefs.append(text)

    def enum(self, q):
        name = 'enum_' + mangle(q)
        if name in self.typedef_names:
            return name
        cands = self.ix.lookup(q, kinds=('EnumDecl',))
        n = cands[0][1]
        under = 'int'
        if 'fixedUnderlyingType' in n:
            under = self.ctype(self.resolve(parse_type(n['fixedUnderlyingType'].get('desugaredQualType') or
                                                       n['fixedUnderlyingType']['qualType'])))
        lines = [f'typedef {under} {name};']
        val = -1
        for c in n.get('inner', []):
            if c.get('kind') == 'EnumConstantDecl':
                if c.get('inner'):
                    val = self.constval(c['inner'][0])
                else:
                    val += 1
                lines.append(f'#define {mangle(q)}__{c["name"]} (({name}){val})')
        self.typedef(name, '\n'.join(lines))
        return name

    def constval(self, n):
        if n.get('kind') == 'ConstantExpr' and 'value' in n:
            return int(n['value'])
        if n.get('kind') == 'IntegerLiteral':
            return int(n['value'])
        if n.get('kind') in ('ImplicitCastExpr', 'ConstantExpr', 'ParenExpr'):
            return self.constval(n['inner'][0])
        raise LoweringError(f'enum constant too complex: {n.get("kind")}')

    def record(self, q):
        if q in self.records:
            return self.records[q]
        if q in SYSREC:
            self.records[q] = SYSREC[q]
            self.record_inits[SYSREC[q]] = False
            return SYSREC[q]
        cands = [(qq, n) for qq, n in self.ix.lookup(q, kinds=('CXXRecordDecl',)) if n.get('completeDefinition')]
        if not cands:
            raise LoweringError(f'no complete definition for record {q}')
        qq, n = cands[0]
        cname = mangle(qq)
        self.records[q] = cname
        self.records[qq] = cname
        if n.get('bases'):
            raise LoweringError(f'record {q} has base classes (not lowered)')
        fields = []
        has_init = False
        only = None
        key = 'fields:' + qq.split('::')[-1]
        if key in self.spec.options:
            only = set(self.spec.options[key].split(','))
        for c in n.get('inner', []):
            if c.get('kind') == 'FieldDecl':
                if only is not None and c['name'] not in only:
                    continue
                ft = self.tyof(c)
                fields.append((c['name'], ft, c))
                if c.get('inner'):
                    has_init = True
        # placeholder so that recursive mentions work
        self.typedef_names[cname] = None
        selfref = any(ft.kind == 'ptr' and ft.sub.kind == 'rec' and self.records.get(ft.sub.name) == cname for _, ft, _ in fields)
        # a record that points to itself (a session's partner) needs its name before its body
        lines = [f'typedef struct {cname} {cname};', f'struct {cname} {{'] if selfref else [f'typedef struct {cname} {{']
        for fname, ft, _ in fields:
            lines.append('  ' + self.decl(ft, fname) + ';')
        if not fields:
            lines.append('  char _empty;')
        lines.append('};' if selfref else f'}} {cname};')
        text = '\n'.join(lines)
        self.typedef_names[cname] = text
        self.typedefs.append(text)
        self.record_fields = getattr(self, 'record_fields', {})
        self.record_fields[cname] = fields
        self.record_inits[cname] = has_init
        return cname

    def decl(self, t, name):
        if t.kind == 'carr':
            inner = t
            dims = ''
            while inner.kind == 'carr':
                dims += f'[{inner.n if inner.n is not None else ""}]'
                inner = inner.sub
            return f'{self.ctype(inner)} {name}{dims}'
        return f'{self.ctype(t)} {name}'

    def family(self, t):
        t = t.strip_ref()
        if t.kind == 'tmpl':
            return {'std::array': 'array', 'std::span': 'span', 'std::vector': 'vector', 'std::deque': 'vector',
                    'std::basic_string': 'string', 'std::basic_string_view': 'strview', 'std::optional': 'optional',
                    'std::chrono::duration': 'duration', 'std::chrono::time_point': 'time_point',
                    'std::unordered_map': 'map', 'std::map': 'map', 'std::pair': 'pair', 'enum': 'enum',
                    'iter': 'iter', 'std::initializer_list': 'span', 'std::variant': 'variant',
                    'std::mersenne_twister_engine': 'rng', 'std::uniform_int_distribution': 'rng', 'std::basic_ostringstream': 'oss', 'std::basic_ostream': 'oss', 'std::atomic': 'atomic', 'std::__atomic_base': 'atomic'}.get(t.name, t.name)
        if t.kind == 'rec':
            return 'rec'
        return t.kind

    def zero(self, t):
        """C expression for a value-initialised object of type t."""
        t = t.strip_ref() if t.kind != 'ref' else t
        if t.kind == 'prim':
            return '0' if t.name != 'void' else ''
        if t.kind in ('ptr', 'ref', 'rref'):
            return '0'
        if t.kind == 'rec':
            c = self.ctype(t)
            if self.record_inits.get(c):
                self.need_init(c)
                return f'{c}__default()'
            return f'(({c}){{0}})'
        if t.kind == 'tmpl' and t.name == 'std::variant':
            a0 = t.args[0]
            if a0.kind == 'rec' and self.record_inits.get(self.ctype(a0)):
                return f'(({self.ctype(t)}){{.index = 0, ._0 = {self.zero(a0)}}})'
        return f'(({self.ctype(t)}){{0}})'

    def need_init(self, cname):
        key = 'init:' + cname
        if key in self.helpers:
            return
        self.helpers.add(key)
        fields = self.record_fields[cname]
        lines = [f'static {cname} {cname}__default(void) {{', f'  {cname} r = {{0}};']
        saved = (self.pre, self.cur)
        self.pre = []
        self.cur = {'ret': T('rec', cname), 'name': cname + '__default', 'loops': 0, 'locals': {}, 'try': []}
        for fname, ft, node in fields:
            inits = [c for c in node.get('inner', []) if c.get('kind') and not c['kind'].endswith('Attr')
                     and not c['kind'].endswith('Comment')]
            if inits:
                lines.append(f'  r.{fname} = {self.ex(inits[0], want=ft)};')
            elif ft.kind == 'rec' and self.record_inits.get(self.ctype(ft)):
                self.need_init(self.ctype(ft))
                lines.append(f'  r.{fname} = {self.ctype(ft)}__default();')
        if self.pre:
            raise LoweringError(f'default member initialiser of {cname} needs temporaries')
        self.pre, self.cur = saved
        lines.append('  return r;\n}')
        self.init_fns = getattr(self, 'init_fns', [])
        self.init_fns.append('\n'.join(lines))


from cxx2c_expr import ExprMixin
from cxx2c_call import CallMixin
from cxx2c_stmt import StmtMixin


class Unit(Lowering, ExprMixin, CallMixin, StmtMixin):
    def __init__(self, spec, maythrow=()):
        Lowering.__init__(self, spec)
        self.maythrow = set(maythrow)
        self.queue = []
        self.name_peers = {}
        self.global_names = {}
        self.static_decls = []
        self.spec_used = set()
        self.init_fns = []
        self.record_fields = {}
        self.defnodes = {}
        for nid, n in self.ix.by_id.items():
            if n.get('kind') in ('FunctionDecl', 'CXXMethodDecl', 'CXXConstructorDecl', 'CXXConversionDecl') and has_body(n):
                self.defnodes[self.canon(nid)] = n

    def run(self):
        declare_only = set()
        for name in self.spec.types:
            self.ctype(self.resolve(parse_type(name)))
        for name in self.spec.globals:
            c = self.ix.lookup(name, kinds=('VarDecl',))
            if len(c) != 1:
                raise LoweringError(f'@globals {name}: {len(c)} matches')
            if c[0][1]['id'] not in self.global_names:
                self.cur = None
                self.lower_global(c[0][1])
        for name in self.spec.declare:
            for cid in self.find_fn(name):
                declare_only.add(cid)
                if cid not in self.fnmap:
                    self.request_fn(cid)
        for name in self.spec.define:
            for cid in self.find_fn(name, want_body=True):
                if cid not in self.fnmap:
                    self.request_fn(cid)
        for fname, var in self.spec.lambdas:
            # a non-capturing lambda bound to a local variable of a (possibly huge) function, lowered as a function of its own:
            # <function>__lambda_<variable>.  Must-fire: the function and exactly one such variable must exist.
            found = []
            for cid in self.find_fn(fname, want_body=True):
                def walk(n):
                    if n.get('kind') == 'VarDecl' and n.get('name') == var:
                        lam = self.strip_to_lambda(n)
                        if lam is not None:
                            found.append((cid, lam))
                            return
                    for c in n.get('inner', []):
                        walk(c)
                walk(self.defnodes[cid])
            if len(found) != 1:
                raise LoweringError(f'@lambda {fname} {var}: {len(found)} lambdas bound to a variable of that name (renamed or removed?)')
            cid, lam = found[0]
            self.cur = {'name': mangle(self.ix.qname.get(cid) or fname), 'locals': {}, 'captures': {}}
            res = self.lambda_fn(lam, name=var)
            self.cur = None
            if res['captures']:
                raise LoweringError(f'@lambda {fname} {var}: the lambda captures, cannot be lowered on its own')
        for sl in self.spec.slices:
            self.lower_slice(*sl)
        done = set()
        while self.queue:
            cid = self.queue.pop(0)
            if cid in done:
                continue
            done.add(cid)
            info = self.lower_fn(cid, define=cid not in declare_only)
        unused = set(self.spec.fn) - self.spec_used
        if unused:
            raise LoweringError(f'spec entries matched no lowered function: {sorted(unused)}')
        return {c for c, i in self.fninfo.items() if i.get('maythrow')}

    def find_fn(self, name, want_body=False):
        c = self.ix.lookup(name, kinds=('FunctionDecl', 'CXXMethodDecl', 'CXXConstructorDecl'), want_body=want_body)
        ids = []
        for q, n in c:
            cid = self.canon(n['id'])
            if cid not in ids:
                ids.append(cid)
        if not ids:
            raise LoweringError(f'function {name} not found in {self.spec.source} (renamed or removed?)')
        return ids

    def helper_text(self):
        out = []
        if 'str' in self.helpers or 'str' in self.typedef_names:
            self.ctype(self.resolve(parse_type('std::string')))
            self.ctype(self.resolve(parse_type('std::string_view')))
            out.append('CXX_STR()')
        if 'oss' in self.helpers:
            out.append('CXX_OSS()')
        for h in sorted(self.helpers, key=str):
            if isinstance(h, tuple):
                kind, ct, s = h
                out.append(f'CXX_{kind.upper()}({ct}, {s})')
        return out

    def emit(self):
        ht = self.helper_text()
        L = ['/* generated by cxx2c from %s -- do not edit */' % self.spec.source,
             '#include "cxxmodel.h"', '']
        L += self.typedefs
        L += ['']
        L += ht
        L += self.static_decls
        L += self.globals_c
        L += self.init_fns
        L += ['', '/* ---- prologue (spec) ---- */'] + self.spec.prologue
        L += ['', '/* ---- prototypes ---- */'] + self.protos
        L += ['', '/* ---- definitions ---- */']
        for cname, text in self.bodies:
            L.append(text)
        # keep the symbols of declared-only (contract-replaced) functions alive even when a changed caller no longer calls
        # them: goto-instrument --replace-call-with-contract aborts on a missing symbol, and the harness assertions (not a
        # tool error) must decide that case
        decl_only = sorted(c for c, i in self.fninfo.items() if not i.get('has_body') and i.get('contract'))
        if decl_only:
            L.append('void *__cxx_keep_%s[] = {%s};' % (re.sub(r'\W', '_', self.spec.unit), ', '.join('(void *)' + c for c in decl_only)))
        L += ['/* ---- epilogue (spec) ---- */'] + self.spec.epilogue
        return '\n'.join(L) + '\n'

    def meta(self):
        fns = {}
        for c, i in self.fninfo.items():
            fns[c] = {'qname': i['qname'], 'line': i.get('line'), 'has_body': i.get('has_body', False),
                      'loops': i['loops'], 'loops_with_contract': i.get('loops_with_contract', []),
                      'contract': i.get('contract', False), 'maythrow': i.get('maythrow', False),
                      'calls': sorted(i.get('calls', []))}
        return {'unit': self.spec.unit, 'source': self.spec.source, 'functions': fns, 'stats': self.stats,
                'dropped': DROPPED, 'models': sorted(str(h) for h in self.helpers)}


def lower(spec_path, out_c, out_meta=None):
    spec = Spec(spec_path)
    mt = set()
    for _ in range(6):
        u = Unit(spec, mt)
        new = u.run()
        if new == mt:
            break
        mt = new
    else:
        raise LoweringError('may-throw fixpoint did not converge')
    text = u.emit()
    with open(out_c, 'w') as f:
        f.write(text)
    if out_meta:
        with open(out_meta, 'w') as f:
            json.dump(u.meta(), f, indent=1)
    return u


if __name__ == '__main__':
    try:
        lower(sys.argv[1], sys.argv[2], sys.argv[3] if len(sys.argv) > 3 else None)
    except LoweringError as e:
        print('cxx2c: LOWERING ERROR:', e, file=sys.stderr)
        sys.exit(2)
