/* C28 (limiter arithmetic), E2: allow_store_request / allow_stream_fetch on the real code, one step from EVERY history that
   satisfies the invariant (at most LIMIT accepted timestamps, none in the future), symbolic clock: an accepted request is
   recorded, the history keeps at most LIMIT entries all within the last 30 s -- hence at most 6 STOREs / 12 streamed FETCHes per
   identity in ANY 30 s window, for request sequences of any length; a request is refused only when LIMIT accepted ones lie
   within the last 30 s. */
#include "ctrl_rate.c"
#include "common.h"
#define NS 1000000000l
#define CAPH 14
static void step(_Bool store)
{
  daemon__Impl *in_impl = malloc(sizeof(daemon__Impl)); str in_identity = {0}; uint64_t in_n; int64_t in_now;
  const uint64_t LIMIT = store ? 6 : 12;
  __CPROVER_assume(in_impl != 0 && in_n <= LIMIT && in_now >= 0 && in_now <= 4000000000000000000l);
  map_str_vec_i64 *m = store ? &in_impl->store_history_ : &in_impl->fetch_history_;
  m->n = 1;
  vec_i64 *h = &m->e[0].second;
  h->p = malloc(sizeof(int64_t) * CAPH); h->n = in_n; h->cap = CAPH;
  __CPROVER_assume(h->p != 0);
  uint64_t recent = 0;
  for (uint64_t k = 0; k < 12; ++k) if (k < in_n) { __CPROVER_assume(h->p[k] >= 0 && h->p[k] <= in_now); if (in_now - h->p[k] <= 30 * NS) recent++; }
  __g_clock_steady = in_now; __g_clock_fixed = 1;
  _Bool ok = store ? daemon__Impl__allow_store_request(in_impl, &in_identity) : daemon__Impl__allow_stream_fetch(in_impl, &in_identity);
  vec_i64 *h2 = &m->e[0].second;
  __CPROVER_assert(m->n == 1 && h2->n <= LIMIT, "the history never holds more than the limit");
  uint64_t g; __CPROVER_assume(g < h2->n);
  __CPROVER_assert(in_now - h2->p[g] <= 30 * NS && h2->p[g] <= in_now, "every remembered request lies within the last 30 s");
  __CPROVER_assert(ok == (recent < LIMIT), "a request is accepted exactly when fewer than LIMIT accepted requests lie within the last 30 s");
  if (ok) __CPROVER_assert(h2->n == recent + 1 && h2->p[h2->n - 1] == in_now, "an accepted request is remembered at the current time, together with exactly the recent ones");
  else __CPROVER_assert(h2->n == recent, "a refused request is not remembered");
}
void h_store_rate(void) { step(1); CANARY_POINT(); }
void h_fetch_rate(void) { step(0); CANARY_POINT(); }
