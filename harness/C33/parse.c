/* C33: parse_stun_response, every datagram of every length <= 65535 (loop contract): memory safety + RFC 5389 decoding */
#include "stun.c"
#include "common.h"
void harness(void)
{
  uint64_t in_length;
  __CPROVER_assume(in_length <= 65535);
  uint8_t *in_data = malloc(in_length ? in_length : 1);   /* an object of exactly the datagram's size */
  arr_u8_12 *in_txid = malloc(sizeof(arr_u8_12));
  __CPROVER_assume(in_data && in_txid && __g_t < 12 && __g_i < 16);
  __g_ntop_calls = 0;
  opt_network__StunParserResult r = network__parse_stun_response(in_data, in_length, in_txid);
  const uint8_t *data = in_data;
  if (r.has) {
    /* an address is reported only for a Binding Success response with matching transaction id ... */
    __CPROVER_assert(in_length >= 20 && data[0] == 0x01 && data[1] == 0x01 && in_length >= 20ul + BE16(data + 2), "Binding Success response, length consistent");
    __CPROVER_assert(data[8 + __g_t] == in_txid->_[__g_t], "transaction id matches");
    /* ... taken from a (XOR-)MAPPED-ADDRESS attribute that lies wholly inside the datagram and is well-formed ... */
    uint64_t o = __g_off;
    __CPROVER_assert(o >= 20 && o + 4 <= in_length, "attribute header inside the datagram");
    uint16_t a_type = BE16(data + o), a_len = BE16(data + o + 2);
    _Bool x = (a_type == 0x0020);
    __CPROVER_assert((a_type == 0x0001 || a_type == 0x0020) && a_len >= 4 && o + 4 + a_len <= in_length, "MAPPED-ADDRESS or XOR-MAPPED-ADDRESS, value inside the datagram");
    uint8_t family = data[o + 5];
    __CPROVER_assert((family == 1 && a_len >= 8 && __g_ntop_af == 2) || (family == 2 && a_len >= 20 && __g_ntop_af == 10), "family and length are a valid pair");
    /* ... decoded exactly as RFC 5389 15.1 / 15.2 */
    __CPROVER_assert(r.v.port == (uint16_t)(BE16(data + o + 6) ^ (x ? 0x2112 : 0)), "port decoded per RFC 5389");
    if (__g_ntop_af == 2 && __g_i < 4) {
      uint8_t raw = data[o + 8 + __g_i];
      __CPROVER_assert(__g_ntop_bytes[__g_i] == (uint8_t)(raw ^ (x ? COOKIE(__g_i) : 0)), "IPv4 address decoded per RFC 5389");
    }
    if (__g_ntop_af == 10 && family == 2 && a_len >= 20 && o + 4 + a_len <= in_length) {
      uint8_t raw = data[o + 8 + __g_i];
      __CPROVER_assert(__g_ntop_bytes[__g_i] == (uint8_t)(raw ^ (x ? (__g_i < 4 ? COOKIE(__g_i) : in_txid->_[__g_i < 4 ? 0 : __g_i - 4]) : 0)), "IPv6 address decoded per RFC 5389");
    }
    __CPROVER_assert(__g_ntop_calls == 1, "exactly one address is formatted");
  } else {
    __CPROVER_assert(__g_ntop_calls == 0, "no address reported");
  }
  CANARY_POINT();
}
