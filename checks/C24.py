from vdriver import Group
META = {'level': 'other', 'assumptions': ['groups backoff.*: the function contract is checked by assume-requires / call / assert-ensures on static objects (verbatim clause text emitted by the lowering), not through goto-instrument dfcc enforcement; the frame is asserted explicitly', 'groups backoff.*: configuration values are bounded (initial back-off <= 2^24 s, maximum and success interval <= 2^32 s) so that seconds fit into int64 nanoseconds']}
def groups(tier):
    K = dict(unit='fetch_slots', harness='C24/inflight.c', unwind=3, kind='skeleton', checks=[], skeleton=True, timeout=600, backend=['sat', 'cadical'],
             replay='reannounce', bound='control-flow skeleton (E3) with the in_flight facet; loops unrolled twice')
    return [Group('schedule.inflight', entry='h_schedule', clause='schedule_assigned_fetch clears in_flight only after releasing the peer slot', **K),
            Group('dispatch.inflight', entry='h_dispatch', clause='dispatch_pending_fetch sets in_flight exactly when it took a peer slot; the retry delay is computed after the attempt was counted', **dict(K, replay='backoff')),
            Group('clear.inflight', entry='h_clear', clause='clear_pending_fetch forgets a fetch only after releasing the slot it holds', **K)] + \
           [Group(f'backoff.attempts={a}', 'backoff', 'C24/backoff_h.c', entry='h_backoff',
                  defines=[f'ATT={a}'], unwind=4, kind='unbounded', backend=['cvc5', 'z3', 'sat', 'cadical'], timeout=900, replay='backoff',
                  clause=f'schedule_next_fetch_attempt with attempts = {a}: delay = initial back-off (at least 1 s) * 2^min(attempts-1, 8), capped at the maximum; '
                         'attempt limit exhausted => never retried; success => the success interval') for a in range(0, 11)]


def replay(group, trace):
    """the REAL Node: an in-flight pending fetch is re-announced"""
    import sys, os
    root = os.path.dirname(os.path.dirname(os.path.abspath(__file__)))
    sys.path.insert(0, os.path.join(root, 'replay'))
    import replaylib as R
    exe = R.build_full('C24.cpp', with_daemon=False, exclude=['src/core/Node.cpp'])
    rc, out = R.run(exe, ['backoff'] if group.replay == 'backoff' else [], timeout=60)
    last = [l for l in out.strip().splitlines() if l.strip()][-1:] or ['']
    return rc == 1, last[0][:400]
