// native replay for C07 (bucket shape): the REAL KademliaTable.  A contact is registered with a deadline one hour away and then registered
// again (refreshed) with a new address and a deadline one minute away; its own id is registered too.  The table must hold exactly one
// entry for the contact, with the NEWEST address and deadline, and must not hold the node's own id.  exit 1 = violated.
#include "ephemeralnet/dht/KademliaTable.hpp"
#include <algorithm>
#include <cstdio>
#include <string>
#include <vector>
using namespace ephemeralnet;
using namespace std::chrono;
// scenario closest: contacts spread over several buckets; for several targets and limits the answer must be the `limit` nearest unexpired
// contacts in increasing XOR distance (reference: brute-force sort of all contacts by distance)
static int closest() {
    PeerId self{};                      // all zero: the bucket of an id is the position of its highest set bit
    KademliaTable t(self);
    const std::uint8_t first_bytes[] = {0x40, 0x01, 0x20, 0xFF, 0x03, 0x10};
    std::vector<PeerContact> all;
    for (auto b : first_bytes) { PeerContact c{}; c.id[0] = b; c.address = "10.0.0." + std::to_string(b) + ":1"; c.expires_at = steady_clock::now() + hours(1); t.register_peer(c); all.push_back(c); }
    const std::uint8_t targets[] = {0x81, 0x02, 0x7F, 0x41, 0x00, 0x11};
    for (auto tb : targets) for (std::size_t limit = 1; limit <= 7; ++limit) {
        PeerId target{}; target[0] = tb;
        auto want = all;
        std::sort(want.begin(), want.end(), [&](const PeerContact& a, const PeerContact& b) { return (a.id[0] ^ tb) < (b.id[0] ^ tb); });
        want.resize(std::min(limit, want.size()));
        const auto got = t.closest_peers(target, limit);
        bool same = got.size() == want.size();
        for (std::size_t i = 0; same && i < got.size(); ++i) same = got[i].id == want[i].id;
        if (!same) {
            std::printf("REPRODUCED: closest_peers(target %02x.., limit %zu) returned", tb, limit);
            for (const auto& c : got) std::printf(" %02x", c.id[0]);
            std::printf(" but the nearest contacts by XOR distance are");
            for (const auto& c : want) std::printf(" %02x", c.id[0]);
            std::printf("\n");
            return 1;
        }
    }
    std::printf("closest_peers returns the nearest contacts in increasing distance\n");
    return 0;
}
int main(int argc, char** argv) {
    if (argc > 1 && std::string(argv[1]) == "closest") return closest();
    PeerId self{}; self[0] = 0x07;
    KademliaTable t(self);
    PeerContact c{}; c.id[0] = 0x87; c.address = "10.0.0.1:1"; c.expires_at = steady_clock::now() + hours(1);
    t.register_peer(c);
    PeerContact again = c; again.address = "10.0.0.2:2"; again.expires_at = steady_clock::now() + seconds(60);
    t.register_peer(again);
    PeerContact me{}; me.id = self; me.address = "127.0.0.1:9"; me.expires_at = steady_clock::now() + hours(1);
    t.register_peer(me);
    const auto all = t.closest_peers(c.id, 64);
    int hits = 0; const PeerContact* found = nullptr;
    for (const auto& e : all) { if (e.id == c.id) { hits++; found = &e; } if (e.id == self) { std::printf("REPRODUCED: the node's own id is held in the routing table\n"); return 1; } }
    if (hits != 1) { std::printf("REPRODUCED: a refreshed contact has %d entries\n", hits); return 1; }
    const double life = duration<double>(found->expires_at - steady_clock::now()).count();
    if (found->address != again.address || life > 65.0) { std::printf("REPRODUCED: a refreshed contact does not carry its newest address and deadline (address %s, %.0f s left; refreshed with %s and 60 s)\n", found->address.c_str(), life, again.address.c_str()); return 1; }
    std::printf("single entry with the newest address and deadline; own id not held\n");
    return 0;
}
