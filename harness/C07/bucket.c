/* C07 (bucket shape, E2: the real KademliaTable::upsert_bucket with the container models; bucket_index_for by its contract, its answer
   chosen by the harness): for every bucket holding at most B contacts with distinct ids (all deadlines, the clock and the new contact
   symbolic)
     - a contact whose id has no bucket (the node's own id) changes nothing: the node's own id is never held;
     - otherwise only the bucket bucket_index_for names changes; afterwards it holds exactly ONE entry with the contact's id, and that entry
       carries the contact's (newest) address and deadline; every other entry that has not expired is kept, expired ones are dropped;
     - the bucket never holds more than 16 contacts. */
#include "kad_bucket.c"
#include "common.h"
#ifndef B
#define B 3
#endif
/* bucket_index_for, taken by contract: the harness supplies the (contract-conforming: none, or an index below 256) answer as a CONSTANT on
   each path -- the generated contract stub would make it a symbolic value equal to that constant, and every access to the 256-bucket array
   would go through a symbolic index (solver out of memory) */
opt_u64 KademliaTable__bucket_index_for(KademliaTable *self, arr_u8_32 *peer) { opt_u64 r; r.has = g_index_has; r.v = g_index; return r; }
static KademliaTable tab; static PeerContact st[B + 2], before[B + 1];
static _Bool same_id(const PeerContact *a, const PeerContact *b) { for (int k = 0; k < 32; ++k) if (a->id._[k] != b->id._[k]) return 0; return 1; }
static void body(uint64_t bi, _Bool has)
{
  g_index_has = has; g_index = bi;
  vec_PeerContact *bk = &tab.buckets_._[bi];
  uint64_t n; __CPROVER_assume(n <= B);
  bk->p = st; bk->n = n; bk->cap = B + 2;
  for (int i = 0; i < B; ++i) for (int j = 0; j < i; ++j) if ((uint64_t)i < n) __CPROVER_assume(st[i].id._[0] != st[j].id._[0]);
  for (int i = 0; i < B; ++i) before[i] = st[i];
  PeerContact in_c; for (int k = 1; k < 32; ++k) in_c.id._[k] = 0;
  static char addr[4]; in_c.address.p = addr; __CPROVER_assume(in_c.address.n <= 3); in_c.address.cap = 3;
  __CPROVER_assume(in_c.expires_at >= 0 && in_c.expires_at <= 4000000000000000000l);
  int64_t t_now; __CPROVER_assume(t_now >= 0 && t_now <= 4000000000000000000l); __g_clock_steady = t_now; __g_clock_fixed = 1;
  uint64_t other = (bi + 1) % 256, other_n = tab.buckets_._[other].n;
  KademliaTable__upsert_bucket(&tab, in_c);
  __CPROVER_assert(tab.buckets_._[other].n == other_n, "buckets other than the contact's own are not touched");
  if (!has) { __CPROVER_assert(bk->n == n, "a contact without a bucket (the node's own id) is not held and changes nothing"); return; }
  int hits = 0; for (uint64_t j = 0; j < B + 1; ++j) if (j < bk->n && same_id(&bk->p[j], &in_c)) hits++;
  __CPROVER_assert(hits == 1, "the bucket holds exactly one entry for the contact's id");
  uint64_t g; __CPROVER_assume(g < bk->n);
  if (same_id(&bk->p[g], &in_c)) {
    __CPROVER_assert(bk->p[g].expires_at == in_c.expires_at, "a refreshed contact carries its NEWEST deadline");
    __CPROVER_assert(bk->p[g].address.n == in_c.address.n && (in_c.address.n == 0 || bk->p[g].address.p[0] == addr[0]), "a refreshed contact carries its newest address");
  }
  uint64_t o; __CPROVER_assume(o < n);
  if (!same_id(&before[o], &in_c)) {
    int kept = 0; for (uint64_t j = 0; j < B + 1; ++j) if (j < bk->n && same_id(&bk->p[j], &before[o]) && bk->p[j].expires_at == before[o].expires_at) kept++;
    __CPROVER_assert(kept == (t_now < before[o].expires_at ? 1 : 0), "every other contact is kept exactly while it has not expired");
  }
  __CPROVER_assert(bk->n <= 16, "no bucket holds more than 16 contacts");
}
void h_upsert(void)
{
  /* tab has static storage: all 256 buckets start empty (value-initialised deques); the local id is not read (bucket_index_for is a stub) */
  for (int i = 0; i < B + 2; ++i) { PeerContact c; st[i] = c; for (int k = 1; k < 32; ++k) st[i].id._[k] = 0; st[i].address.p = 0; st[i].address.n = 0; st[i].address.cap = 0; __CPROVER_assume(st[i].expires_at >= 0 && st[i].expires_at <= 4000000000000000000l); }
  uint8_t pick;
  /* bucket_index_for's answer is a constant on each path (symbolic execution stays small; the function only uses it to select the bucket) */
  if (pick == 0) body(0, 1); else if (pick == 1) body(7, 1); else if (pick == 2) body(255, 1); else body(0, 0);
  CANARY_POINT();
}
