// native replay for C35: the REAL Node.  A peer with an established session (valid handshake) announces a manifest whose key
// shards repeat an index (it passes validate_shards) and then sends a correctly signed CHUNK message for it.
// exit 1 = an exception escapes Node::handle_transport_message (in the daemon: std::terminate on the session thread).
#include "src/core/Node.cpp"
#include <cstdio>
using namespace ephemeralnet;
int main(int argc, char** argv) {
    const std::string scenario = argc > 1 ? argv[1] : "chunk";
    Config config{};
    config.handshake_pow_difficulty = 8;
    config.identity_seed = 21u;
    PeerId self{}; self[0] = 0xB1;
    Node node(self, config);
    PeerId peer{}; peer[0] = 0xA1;
    const std::uint32_t key1 = network::KeyExchange::compute_public(424243u);
    std::uint64_t nonce1 = 0;
    if (!compute_handshake_pow(peer, self, key1, node.config().handshake_pow_difficulty, nonce1) || !node.perform_handshake(peer, key1, nonce1)) { std::printf("handshake setup failed\n"); return 2; }
    const auto session = node.session_key(peer);
    if (!session.has_value()) { std::printf("no session key\n"); return 2; }

    if (scenario == "endpoint") {
        // parse_endpoint is applied to addresses announced by peers (deliver_manifest / dispatch_pending_fetch): hostile port texts
        const char* hostile[] = {"h:", ":1", "h:abc", "h:99999999999999999999999999", "h:184467440737095516159", "h:-1", "h: 7", "h:0x10", "::", "h:70000"};
        for (const char* a : hostile) {
            try { (void)parse_endpoint(a); }
            catch (const std::exception& e) { std::printf("REPRODUCED: parse_endpoint(\"%s\") throws %s (\"%s\"); it runs on peer-announced addresses with no handler up to the session thread\n", a, typeid(e).name(), e.what()); return 1; }
        }
        std::printf("parse_endpoint handled every hostile address without throwing\n");
        return 0;
    }
    if (scenario == "manifest") {
        const char* uris[] = {"", "eph://", "eph://!!!!", "eph://AAAA", "eph://QUJD", "not-a-uri", "eph://////"};
        for (const char* u : uris) {
            try {
                (void)node.ingest_manifest(u);
                (void)node.receive_chunk(u, ChunkData{1, 2, 3});
                (void)node.request_chunk(peer, "", 0, u);
                protocol::Message am{}; am.version = protocol::kCurrentMessageVersion; am.type = protocol::MessageType::Announce;
                protocol::AnnouncePayload ap{}; ap.chunk_id[0] = 1; ap.peer_id = peer; ap.manifest_uri = u; ap.ttl = std::chrono::seconds(60); ap.endpoint = "127.0.0.1:1";
                am.payload = ap;
                network::TransportMessage tm0{}; tm0.peer_id = peer;
                tm0.payload = protocol::encode_signed(am, std::span<const std::uint8_t>(session->data(), session->size()));
                node.handle_transport_message(tm0);
            } catch (const std::exception& e) { std::printf("REPRODUCED: manifest text \"%s\" makes %s escape the node (\"%s\")\n", u, typeid(e).name(), e.what()); return 1; }
        }
        std::printf("malformed manifest texts were rejected without an escaping exception\n");
        return 0;
    }
    protocol::Manifest m{};
    m.chunk_id[0] = 0x35;
    m.threshold = 2; m.total_shares = 2;
    protocol::KeyShard s1{}, s2{};
    s1.index = 1; s2.index = 1;                       // repeated index
    for (std::size_t i = 0; i < s1.value.size(); ++i) { s1.value[i] = static_cast<std::uint8_t>(i + 1); s2.value[i] = static_cast<std::uint8_t>(2 * i + 3); }
    m.shards = {s1, s2};
    m.expires_at = std::chrono::system_clock::now() + std::chrono::hours(1);
    const auto uri = protocol::encode_manifest(m);
    if (!node.ingest_manifest(uri)) { std::printf("manifest was refused at registration (shard set validated): no exception possible on this path\n"); return 0; }

    protocol::Message msg{};
    msg.version = protocol::kCurrentMessageVersion;
    msg.type = protocol::MessageType::Chunk;
    protocol::ChunkPayload cp{};
    cp.chunk_id = m.chunk_id; cp.data = {1, 2, 3, 4}; cp.ttl = std::chrono::seconds(60);
    msg.payload = cp;
    const auto wire = protocol::encode_signed(msg, std::span<const std::uint8_t>(session->data(), session->size()));
    network::TransportMessage tm{};
    tm.peer_id = peer;
    tm.payload = wire;
    try {
        node.handle_transport_message(tm);
    } catch (const std::exception& e) {
        std::printf("REPRODUCED: %s escaped Node::handle_transport_message for a signed CHUNK whose cached manifest repeats a shard index: \"%s\"\n", typeid(e).name(), e.what());
        return 1;
    }
    std::printf("message handled without an escaping exception\n");
    return 0;
}
