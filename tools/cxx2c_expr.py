"""Expression lowering (mixin for cxx2c.Lowering)."""
import re
from cxxast import LoweringError, params
from cxxtypes import T, parse_type, PRIMS

CMP = {'==', '!=', '<', '>', '<=', '>='}


def deref(s):
    """C text for *(s) with &-cancellation."""
    s = s.strip()
    if s.startswith('&(') and s.endswith(')') and balanced(s[2:-1]):
        return s[2:-1]
    return f'(*{s})'


def addr(s):
    s = s.strip()
    if s.startswith('(*') and s.endswith(')') and balanced(s[2:-1]):
        return s[2:-1]
    return f'&({s})'


def balanced(s):
    d = 0
    for ch in s:
        if ch == '(':
            d += 1
        elif ch == ')':
            d -= 1
            if d < 0:
                return False
    return d == 0


class ExprMixin:
    def tmp(self, prefix='__t'):
        self.tmpn += 1
        return f'{prefix}{self.tmpn}'

    def hoist(self, t, init, prefix='__t'):
        if self.cond_depth:
            raise LoweringError(f'temporary needed inside a conditionally evaluated operand in {self.cur["name"]}')
        name = self.tmp(prefix)
        self.pre.append(f'{self.decl(t, name)} = {init};')
        return name

    def children(self, n):
        return [c for c in n.get('inner', [])]

    def ex(self, n, want=None):
        self.stats['nodes'] += 1
        k = n.get('kind')
        m = getattr(self, 'e_' + k, None)
        if m is None:
            raise LoweringError(f'no rule for expression node {k} in {self.cur and self.cur["name"]} '
                                f'at {n.get("range", {}).get("begin", {})}')
        return m(n)

    # ---- leaves
    def e_IntegerLiteral(self, n):
        v = int(n['value'])
        t = self.tyof(n)
        suf = {'unsigned int': 'u', 'long': 'l', 'unsigned long': 'ul', 'long long': 'll',
               'unsigned long long': 'ull'}.get(t.name, '')
        return f'{v}{suf}'

    def e_CharacterLiteral(self, n):
        return f'((char){int(n["value"])})'

    def e_CXXBoolLiteralExpr(self, n):
        return '1' if n['value'] else '0'

    def e_CXXNullPtrLiteralExpr(self, n):
        return '((void*)0)'

    def e_FloatingLiteral(self, n):
        return str(n['value'])

    def e_StringLiteral(self, n):
        return n['value']

    def e_ParenExpr(self, n):
        return f'({self.ex(n["inner"][0])})'

    def e_ConstantExpr(self, n):
        return self.ex(n['inner'][0])

    def e_ExprWithCleanups(self, n):
        return self.ex(n['inner'][0])

    def e_CXXBindTemporaryExpr(self, n):
        return self.ex(n['inner'][0])

    def e_SubstNonTypeTemplateParmExpr(self, n):
        return self.ex(n['inner'][0])

    def e_CXXThisExpr(self, n):
        return 'self'

    def e_CXXDefaultArgExpr(self, n):
        raise LoweringError('default argument expression (not in AST dump); pass the argument explicitly in a wrapper')

    def e_CXXDefaultInitExpr(self, n):
        if n.get('inner'):
            return self.ex(n['inner'][0])
        raise LoweringError('default member initialiser used outside a known field context')

    def field_default(self, fnode, ft):
        """value of a field's in-class default member initialiser (clang's dump does not repeat it at the use)"""
        inits = [c for c in fnode.get('inner', []) if c.get('kind') and not c['kind'].endswith('Attr')
                 and not c['kind'].endswith('Comment')]
        if not inits:
            return self.zero(ft)
        return self.ex(inits[0], want=ft)

    def e_ImplicitValueInitExpr(self, n):
        return self.zero(self.tyof(n))

    def e_CXXScalarValueInitExpr(self, n):
        return self.zero(self.tyof(n))

    def e_DeclRefExpr(self, n):
        rd = n['referencedDecl']
        kind = rd['kind']
        name = rd.get('name')
        if kind == 'VarDecl' and name == 'nullopt' and rd['id'] not in self.ix.by_id:
            return '0'
        if kind == 'VarDecl' and name == 'npos' and rd['id'] not in self.ix.by_id:
            return '((uint64_t)-1)'
        if kind in ('VarDecl', 'ParmVarDecl', 'BindingDecl'):
            loc = self.cur['locals'].get(rd['id'])
            if loc is not None:
                cname, isref = loc
                return deref(cname) if isref else cname
            # captured variable inside a lambda body, or a global
            cap = self.cur.get('captures', {}).get(rd['id'])
            if cap is not None:
                return cap
            return self.global_ref(rd)
        if kind == 'EnumConstantDecl':
            decl = self.ix.by_id.get(rd['id'])
            q = self.ix.qname.get(rd['id'])
            if q is None:
                raise LoweringError(f'enum constant {name} not in index')
            et = self.tyof(n)
            self.ctype(et)
            parts = q.split('::')
            # unscoped enums: constant registered without the enum's name
            en = et.args[0].name if et.kind == 'tmpl' and et.name == 'enum' else None
            if en is None:
                raise LoweringError(f'enum constant {q} with non-enum type')
            from cxx2c import mangle
            return f'{mangle(en)}__{name}'
        if kind in ('FunctionDecl', 'CXXMethodDecl'):
            return self.fn_cname(rd)
        raise LoweringError(f'DeclRefExpr to {kind} {name}')

    def global_ref(self, rd):
        gid = rd['id']
        if gid in self.global_names:
            return self.global_names[gid]
        node = self.ix.by_id.get(gid)
        if node is None or node.get('kind') != 'VarDecl':
            raise LoweringError(f'reference to unknown variable {rd.get("name")} ({gid}) in {self.cur["name"]}')
        return self.lower_global(node)

    # ---- casts
    def e_ImplicitCastExpr(self, n):
        ck = n.get('castKind')
        sub = n['inner'][0]
        if ck in ('LValueToRValue', 'NoOp', 'FunctionToPointerDecay', 'ConstructorConversion',
                  'UserDefinedConversion', 'BuiltinFnToFnPtr'):
            return self.ex(sub)
        if ck == 'ArrayToPointerDecay':
            st = self.tyof(sub)
            s = self.ex(sub)
            return s
        if ck in ('IntegralCast', 'IntegralToFloating', 'FloatingToIntegral', 'FloatingCast', 'BitCast',
                  'PointerToIntegral', 'IntegralToPointer', 'BooleanToSignedIntegral'):
            t = self.tyof(n)
            return f'(({self.ctype(t)})({self.ex(sub)}))'
        if ck in ('IntegralToBoolean', 'PointerToBoolean', 'FloatingToBoolean'):
            return f'(({self.ex(sub)}) != 0)'
        if ck == 'NullToPointer':
            return '0'
        if ck == 'ToVoid':
            return f'((void)({self.ex(sub)}))'
        if ck in ('DerivedToBase', 'UncheckedDerivedToBase') and self.family(self.tyof(sub)) == 'iter' and self.family(self.tyof(n)) == 'iter':
            return self.ex(sub)
        if ck in ('DerivedToBase', 'UncheckedDerivedToBase') and self.family(self.tyof(sub)) == 'atomic':
            return self.ex(sub)          # std::atomic<T> used through its __atomic_base: same model value          # library iterator compared through its base class: same model pointer
        if ck in ('DerivedToBase', 'UncheckedDerivedToBase') and self.tyof(sub).strip_ref().kind == 'ptr' and self.tyof(n).strip_ref().kind == 'ptr':
            return self.ex(sub)          # shared_ptr / weak_ptr used through their library base classes: the same model pointer
        raise LoweringError(f'no rule for cast kind {ck}')

    def explicit_cast(self, n):
        ck = n.get('castKind')
        sub = n['inner'][0]
        t = self.tyof(n)
        if ck in ('NoOp', 'LValueToRValue'):
            st = self.tyof(sub)
            if t.kind == 'prim' or self.family(t) in ('duration', 'time_point', 'enum'):
                return f'(({self.ctype(t)})({self.ex(sub)}))'
            return self.ex(sub)
        if ck in ('ConstructorConversion', 'UserDefinedConversion'):
            return self.ex(sub)
        if ck in ('IntegralCast', 'IntegralToFloating', 'FloatingToIntegral', 'FloatingCast', 'BitCast',
                  'PointerToIntegral', 'IntegralToPointer', 'ArrayToPointerDecay', 'BooleanToSignedIntegral'):
            return f'(({self.ctype(t)})({self.ex(sub)}))'
        if ck in ('IntegralToBoolean', 'PointerToBoolean'):
            return f'(({self.ex(sub)}) != 0)'
        if ck == 'ToVoid':
            return f'((void)({self.ex(sub)}))'
        if ck == 'NullToPointer':
            return '0'
        raise LoweringError(f'no rule for explicit cast kind {ck}')

    e_CXXStaticCastExpr = explicit_cast
    e_CStyleCastExpr = explicit_cast
    e_CXXFunctionalCastExpr = explicit_cast
    e_CXXReinterpretCastExpr = explicit_cast
    e_CXXConstCastExpr = explicit_cast

    # ---- operators
    def e_UnaryOperator(self, n):
        op = n['opcode']
        s = self.ex(n['inner'][0])
        if op in ('++', '--'):
            return f'({s}{op})' if n.get('isPostfix') else f'({op}{s})'
        if op == '*':
            return deref(s)
        if op == '&':
            return addr(s)
        if op in ('-', '+', '~', '!'):
            return f'({op}({s}))'
        raise LoweringError(f'unary {op}')

    def e_BinaryOperator(self, n):
        op = n['opcode']
        a, b = n['inner']
        if op in ('&&', '||'):
            sa = self.ex(a)
            self.cond_depth += 1
            sb = self.ex(b)
            self.cond_depth -= 1
            return f'({sa} {op} {sb})'
        if op == ',':
            return f'({self.ex(a)}, {self.ex(b)})'
        if op == '=':
            ta = self.tyof(a)
            return f'({self.ex(a)} = {self.ex(b, want=ta)})'
        ta = self.tyof(a)
        tb = self.tyof(b)
        fa, fb = self.family(ta), self.family(tb)
        if 'duration' in (fa, fb) or 'time_point' in (fa, fb):
            raise LoweringError('builtin binary operator on chrono type')
        return f'({self.ex(a)} {op} {self.ex(b)})'

    def e_CompoundAssignOperator(self, n):
        a, b = n['inner']
        return f'({self.ex(a)} {n["opcode"]} {self.ex(b)})'

    def e_ConditionalOperator(self, n):
        c, a, b = n['inner']
        sc = self.ex(c)
        self.cond_depth += 1
        sa = self.ex(a)
        sb = self.ex(b)
        self.cond_depth -= 1
        return f'({sc} ? {sa} : {sb})'

    def e_ArraySubscriptExpr(self, n):
        a, b = n['inner']
        return f'{self.ex(a)}[{self.ex(b)}]'

    def e_MemberExpr(self, n):
        base = n['inner'][0]
        name = n['name']
        bt = self.tyof(base)
        fd = self.ix.by_id.get(n.get('referencedMemberDecl'))
        # a data member of reference type is stored as a pointer in the C struct: every use goes through it
        isref = fd is not None and fd.get('kind') == 'FieldDecl' and (fd.get('type', {}).get('qualType', '').rstrip().endswith('&'))
        wrap = (lambda e: f'(*{e})') if isref else (lambda e: e)
        if n.get('isArrow'):
            bt2 = bt.strip_ref()
            if bt2.kind == 'ptr' and self.family(bt2.sub) == 'optional':
                raise LoweringError('-> on optional handled in operator call')
            return wrap(f'{self.ex(base)}->{name}')
        fam = self.family(bt)
        if fam == 'pair' or fam == 'rec':
            return wrap(f'{self.ex(base)}.{name}')
        raise LoweringError(f'member access .{name} on {bt!r}')

    def e_UnaryExprOrTypeTraitExpr(self, n):
        if n.get('name') != 'sizeof':
            raise LoweringError(f'{n.get("name")} not lowered')
        if 'argType' in n:
            t = self.resolve(parse_type(n['argType'].get('desugaredQualType') or n['argType']['qualType']))
        else:
            t = self.tyof(n['inner'][0])
        if t.kind == 'carr':
            return f'((uint64_t)({t.n} * sizeof({self.ctype(t.sub)})))'
        return f'((uint64_t)sizeof({self.ctype(t)}))'

    def e_InitListExpr(self, n):
        t = self.tyof(n)
        items = n.get('inner', [])
        filler = None
        if 'array_filler' in n:
            items = [c for c in n['array_filler'] if c.get('kind') != 'ImplicitValueInitExpr']
            # clang prints: array_filler: [filler, elem0, elem1...]; filler is ImplicitValueInitExpr
        return self.initlist(t, items)

    def initlist(self, t, items):
        fam = self.family(t)
        if t.kind == 'carr':
            body = ', '.join(self.ex(c) for c in items) or '0'
            return f'{{{body}}}'
        if fam == 'array':
            if len(items) == 1 and items[0].get('kind') == 'InitListExpr':
                inner = self.e_InitListExpr(items[0])
            elif len(items) == 1 and items[0].get('kind') == 'ImplicitValueInitExpr':
                inner = '{0}'
            elif not items:
                inner = '{0}'
            else:
                inner = '{' + ', '.join(self.ex(c) for c in items) + '}'
            return f'(({self.ctype(t)}){{{inner}}})'
        if fam == 'rec':
            c = self.ctype(t)
            if c not in self.record_fields:
                if any(i.get('kind') not in ('ImplicitValueInitExpr', 'InitListExpr') or
                       any(j.get('kind') != 'ImplicitValueInitExpr' for j in i.get('inner', [])) for i in items):
                    raise LoweringError(f'init list with values for system record {c}')
                return f'(({c}){{0}})'
            fields = self.record_fields[c]
            if len(items) > len(fields):
                raise LoweringError(f'init list longer than fields of {c}')
            if not items:
                return self.zero(t)
            parts = []
            for (fname, ft, fnode), it in zip(fields, items):
                if it.get('kind') == 'CXXDefaultInitExpr' and not it.get('inner'):
                    parts.append(f'.{fname} = {self.field_default(fnode, ft)}')
                else:
                    parts.append(f'.{fname} = {self.ex(it, want=ft)}')
            if len(items) < len(fields) and self.record_inits.get(c):
                raise LoweringError(f'partial init list for {c} with default member initialisers')
            return f'(({c}){{{", ".join(parts)}}})'
        if fam in ('prim', 'ptr', 'enum', 'duration', 'time_point'):
            if not items:
                return '0'
            return self.ex(items[0])
        if fam in ('optional', 'vector', 'string', 'span', 'map', 'strview') and not items:
            return self.zero(t)
        if fam == 'pair' and len(items) == 2:
            return f'(({self.ctype(t)}){{{self.ex(items[0])}, {self.ex(items[1])}}})'
        raise LoweringError(f'init list for {t!r} with {len(items)} items')

    def e_MaterializeTemporaryExpr(self, n):
        sub = n['inner'][0]
        t = self.tyof(n)
        s = self.ex(sub)
        if re.fullmatch(r'__t\d+', s.strip()):
            return s
        if re.fullmatch(r'\(&\(([\w.>\-]|\(\*\w+\))+\)\.e\[1\]\)', s.strip()):
            return s      # end() of a single-key map view over a plain lvalue: a pure address, needs no temporary
        return self.hoist(t, s)

    # ---- calls are in cxx2c_call.py
