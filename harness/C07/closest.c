/* C07 (closest-k, E2: the real KademliaTable::closest_peers and xor_distance with the container models; std::sort written out as the
   library loop with the code's comparator): three contacts C0, C1, C2 with arbitrary ids (the ids differ in byte 0, bytes 1..31 arbitrary
   but equal for all three and the target -- enough to make every distance ordering possible), arbitrary deadlines, placed in three
   different buckets (0, 100 and 255 -- closest_peers does not depend on which bucket holds a contact); arbitrary target, clock and limit.
   The answer lists min(limit, n) of the n unexpired contacts, in strictly increasing XOR distance to the target, and no unexpired contact
   that is left out is closer than one that is listed. */
#include "kad_closest.c"
#include "common.h"
static KademliaTable tab; static PeerContact c[3];
static int dist_lt(const PeerContact *a, const PeerContact *b, const arr_u8_32 *t)
{ for (int k = 0; k < 32; ++k) { uint8_t x = a->id._[k] ^ t->_[k], y = b->id._[k] ^ t->_[k]; if (x != y) return x < y; } return 0; }
void h_closest(void)
{
  arr_u8_32 in_target; uint64_t in_limit; int64_t t_now;
  { PeerContact a[3]; for (int i = 0; i < 3; ++i) c[i] = a[i]; }
  for (int i = 1; i < 3; ++i) for (int k = 1; k < 32; ++k) c[i].id._[k] = c[0].id._[k];
  __CPROVER_assume(c[0].id._[0] != c[1].id._[0] && c[0].id._[0] != c[2].id._[0] && c[1].id._[0] != c[2].id._[0]);
  __CPROVER_assume(in_limit <= 4 && t_now >= 0 && t_now <= 4000000000000000000l);
  for (int i = 0; i < 3; ++i) __CPROVER_assume(c[i].expires_at >= 0 && c[i].expires_at <= 4000000000000000000l);
  __g_clock_steady = t_now; __g_clock_fixed = 1;
  tab.buckets_._[0].p = &c[0]; tab.buckets_._[0].n = 1; tab.buckets_._[0].cap = 1;
  tab.buckets_._[100].p = &c[1]; tab.buckets_._[100].n = 1; tab.buckets_._[100].cap = 1;
  tab.buckets_._[255].p = &c[2]; tab.buckets_._[255].n = 1; tab.buckets_._[255].cap = 1;
  vec_PeerContact r = KademliaTable__closest_peers(&tab, &in_target, in_limit);
  uint64_t live = 0; for (int i = 0; i < 3; ++i) if (t_now < c[i].expires_at) live++;
  __CPROVER_assert(r.n == (live < in_limit ? live : in_limit), "the answer holds min(limit, n) contacts, n = number of unexpired contacts");
  uint64_t g; __CPROVER_assume(g < r.n);
  __CPROVER_assert(t_now < r.p[g].expires_at, "no expired contact is returned");
  if (g + 1 < r.n) __CPROVER_assert(dist_lt(&r.p[g], &r.p[g + 1], &in_target), "the answer is in strictly increasing XOR distance to the target");
  /* an unexpired contact that is left out is not closer than the last one listed */
  uint64_t o; __CPROVER_assume(o < 3);
  _Bool listed = 0; for (uint64_t j = 0; j < 4; ++j) if (j < r.n && r.p[j].id._[0] == c[o].id._[0]) listed = 1;
  if (r.n > 0 && !listed && t_now < c[o].expires_at) __CPROVER_assert(!dist_lt(&c[o], &r.p[r.n - 1], &in_target), "no unexpired contact that is left out is closer than a listed one");
  if (r.n > 0) { CANARY_AT("a non-empty answer"); }
  CANARY_POINT();
}
