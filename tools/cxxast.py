"""Load clang's JSON AST of a /repo translation unit and index it.
Used by cxx2c.py.  Nothing here guesses: unknown shapes raise LoweringError."""
import json, os, subprocess, hashlib, sys, re

REPO = os.environ.get('VERIF_REPO', '/repo')
CACHE = os.environ.get('VERIF_CACHE') or os.path.join(os.environ.get('VERIF_BUILD') or '/verif/build', 'astcache')


class LoweringError(Exception):
    pass


def _hash_inputs(src):
    h = hashlib.sha256()
    paths = [src]
    for root, _, files in os.walk(os.path.join(REPO, 'include')):
        for f in sorted(files):
            paths.append(os.path.join(root, f))
    for p in sorted(paths):
        h.update(p.encode())
        with open(p, 'rb') as fh:
            h.update(fh.read())
    return h.hexdigest()[:24]


AST_ERRORS = {}   # relsrc -> clang diagnostics of a translation unit that was accepted with errors ('@option ast_errors tolerate')


def dump_ast(relsrc, filt='ephemeralnet', tolerate=False):
    """Return list of top-level JSON docs for the TU (current working tree)."""
    src = os.path.join(REPO, relsrc)
    if not os.path.exists(src):
        raise LoweringError(f'source file missing: {src}')
    os.makedirs(CACHE, exist_ok=True)
    key = _hash_inputs(src) + '-' + re.sub(r'\W', '_', relsrc) + '-' + filt + ('-tol' if tolerate else '')
    path = os.path.join(CACHE, key + '.json')
    if not os.path.exists(path):
        cmd = ['clang++', '-std=c++20', '-I' + os.path.join(REPO, 'include'), '-D_FILE_OFFSET_BITS=64',
               '-DNDEBUG', '-fsyntax-only', '-Wno-everything', '-Xclang', '-ast-dump=json']
        if filt:
            cmd += ['-Xclang', '-ast-dump-filter=' + filt]
        cmd.append(src)
        with open(path + '.tmp', 'wb') as out:
            r = subprocess.run(cmd, stdout=out, stderr=subprocess.PIPE)
        if r.returncode != 0:
            if not tolerate or os.path.getsize(path + '.tmp') == 0:
                raise LoweringError('clang failed on %s:\n%s' % (relsrc, r.stderr.decode()[-2000:]))
            # clang 14 rejects a construct g++ (the project's compiler) accepts: the AST is still complete outside the
            # erroneous declarations; every lowered function is checked to be free of error-recovery nodes
            with open(path + '.errors', 'w') as ef:
                ef.write('\n'.join(l for l in r.stderr.decode().splitlines() if ' error: ' in l))
        os.rename(path + '.tmp', path)
    if os.path.exists(path + '.errors'):
        AST_ERRORS[relsrc] = open(path + '.errors').read().splitlines()
    if filt == '':
        return _reduce_full_dump(path)
    s = open(path).read()
    dec = json.JSONDecoder()
    i = 0
    docs = []
    n = len(s)
    while i < n:
        while i < n and s[i].isspace():
            i += 1
        if i >= n:
            break
        d, j = dec.raw_decode(s, i)
        docs.append(d)
        i = j
    return docs


def _reduce_full_dump(path):
    """An unfiltered dump (1 GB for main.cpp) is cut down, streaming, to the top-level declarations whose location is
    inside the repository.  clang prints "file" only when it changes, so the last printed file is tracked."""
    red = path + '.reduced'
    if not os.path.exists(red):
        docs = []
        cur = None
        lastfile = None
        skip_next_file = False
        keep = False
        startfile = None
        with open(path) as fh:
            for line in fh:
                if line == '    {\n' and cur is None:
                    cur = [line]
                    startfile = lastfile
                    keep = None
                    continue
                st = line.lstrip()
                if st.startswith('"includedFrom"'):
                    skip_next_file = True
                elif st.startswith('"file": '):
                    if skip_next_file:
                        skip_next_file = False
                    else:
                        lastfile = json.loads(st.rstrip().rstrip(',')[8:])
                if cur is not None:
                    cur.append(line)
                    if keep is None and (st.startswith('"range"') or st.startswith('"kind"') and len(cur) > 3 and False):
                        pass
                    if line in ('    }\n', '    },\n'):
                        text = ''.join(cur).rstrip().rstrip(',')
                        # decide by the declaration's own location: first "file" inside the chunk, else inherited
                        m = re.search(r'"loc": \{(.*?)\n      \}', text, re.S)
                        f = startfile
                        if m:
                            mm = re.search(r'^\s*"file": ("(?:[^"\\\\]|\\\\.)*")', re.sub(r'"includedFrom": \{.*?\}', '', m.group(1), flags=re.S), re.M)
                            if mm:
                                f = json.loads(mm.group(1))
                        if f and f.startswith(REPO + '/'):
                            d = json.loads(text)
                            d.setdefault('loc', {}).setdefault('file', f)
                            docs.append(d)
                        cur = None
        with open(red + '.tmp', 'w') as out:
            json.dump(docs, out)
        os.rename(red + '.tmp', red)
        os.unlink(path)
        open(path, 'w').close()
    return json.load(open(red))


DECL_SCOPES = ('NamespaceDecl', 'CXXRecordDecl', 'ClassTemplateSpecializationDecl', 'LinkageSpecDecl',
               'TranslationUnitDecl')


class Index:
    def __init__(self, docs, relsrc):
        self.by_id = {}
        self.qname = {}      # id -> qualified name (anonymous namespaces skipped)
        self.defs = {}       # qualified name -> list of decl nodes (functions with body, vars, records)
        self.relsrc = relsrc
        self.file_of = {}    # id -> file (tracked via loc propagation)
        self._curfile = None
        for d in docs:
            self._walk(d, [])
        # link out-of-line definitions to their in-class declarations
        for nid, n in list(self.by_id.items()):
            if n.get('kind') in ('CXXMethodDecl', 'CXXConstructorDecl', 'CXXDestructorDecl', 'FunctionDecl') \
                    and 'previousDecl' in n and 'parentDeclContextId' in n:
                par = self.by_id.get(n['parentDeclContextId'])
                if par is not None and nid in self.qname:
                    pq = self.qname.get(par['id'], '')
                    q = (pq + '::' if pq else '') + n.get('name', '')
                    if self.qname[nid] != q:
                        self.defs[self.qname[nid]].remove(n)
                        self.qname[nid] = q
                        self.defs.setdefault(q, []).append(n)

    def _walk(self, n, scope):
        nid = n.get('id')
        kind = n.get('kind')
        if nid is not None and kind is not None:
            self.by_id.setdefault(nid, n)
        loc = n.get('loc', {})
        f = loc.get('file') or loc.get('spellingLoc', {}).get('file') or loc.get('expansionLoc', {}).get('file')
        if f:
            self._curfile = f
        if nid:
            self.file_of[nid] = self._curfile
        name = n.get('name')
        if kind and kind.endswith('Decl') and kind not in ('ParmVarDecl',):
            if name:
                q = '::'.join(scope + [name])
                self.qname[nid] = q
                self.defs.setdefault(q, []).append(n)
        if kind in DECL_SCOPES or kind == 'EnumDecl':
            sub = scope + ([name] if name and kind != 'LinkageSpecDecl' else [])
            if kind == 'EnumDecl' and not n.get('scopedEnumTag'):
                sub = scope
            for c in n.get('inner', []):
                self._walk(c, sub)
        else:
            for c in n.get('inner', []):
                self._walk_ids(c)

    def _walk_ids(self, n):
        nid = n.get('id')
        if nid is not None and 'kind' in n:
            self.by_id.setdefault(nid, n)
        for c in n.get('inner', []):
            self._walk_ids(c)

    def lookup(self, name, kinds=None, want_body=False):
        """Find decl(s) whose qualified name ends with `name` on a :: boundary."""
        name = name.strip()
        arity = None
        if '/' in name:
            name, a = name.split('/')
            arity = int(a)
        out = []
        for q, nodes in self.defs.items():
            if q == name or q.endswith('::' + name):
                for n in nodes:
                    if kinds and n.get('kind') not in kinds:
                        continue
                    if n.get('isImplicit'):
                        continue
                    if arity is not None:
                        if len([c for c in n.get('inner', []) if c.get('kind') == 'ParmVarDecl']) != arity:
                            continue
                    out.append((q, n))
        if want_body:
            wb = [(q, n) for q, n in out if has_body(n)]
            if wb:
                out = wb
        return out


def has_body(n):
    return any(c.get('kind') in ('CompoundStmt', 'CXXTryStmt') for c in n.get('inner', []))


def params(n):
    return [c for c in n.get('inner', []) if c.get('kind') == 'ParmVarDecl']


def body(n):
    for c in n.get('inner', []):
        if c.get('kind') in ('CompoundStmt', 'CXXTryStmt'):
            return c
    return None
