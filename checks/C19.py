from vdriver import Group
META = {'level': 'proof'}
SHA = ['crypto__Sha256__Sha256__ctor', 'crypto__Sha256__update', 'crypto__Sha256__finalize']
def groups(tier):
    G = [Group('node.clz', 'pow_node', 'C19/node.c', entry='h_clz', unwind=257, kind='constant-unwind', bound='32 bytes x 8 bits',
               clause='Node count_leading_zero_bits == clz256 for every digest'),
         Group('node.handshake', 'pow_node', 'C19/node.c', entry='h_handshake', replace=SHA, unwind=257, kind='constant-unwind',
               bound='fixed-width encoders (8-byte loops), clz 256 bits',
               clause='handshake_pow_valid accepts iff clz(SHA256(len|initiator|len|responder|be64(pub)|be64(nonce))) >= difficulty'),
         Group('node.announce', 'pow_node', 'C19/node.c', entry='h_announce', replace=SHA, unwind=257, kind='constant-unwind', backend=['sat', 'cadical'],
               bound='fixed-width encoders; variable-length fields are symbolic and unbounded',
               clause='announce_pow_valid accepts iff clz(SHA256(encoding of chunk,peer,endpoint,manifest,shards,ttl,nonce)) >= difficulty')]
    G += [Group('node.announce.solver', 'pow_node', 'C19/node.c', entry='h_announce_solver', enforce='compute_announce_pow', loop_contracts=True,
                replace=SHA + ['announce_pow_valid'], unwind=34, kind='unbounded', backend=['sat', 'cadical'],
                clause='a nonce compute_announce_pow reports was accepted by announce_pow_valid for this payload and difficulty'),
          Group('node.handshake.solver', 'pow_node', 'C19/node.c', entry='h_handshake_solver', enforce='compute_handshake_pow', loop_contracts=True,
                replace=SHA + ['handshake_pow_valid'], unwind=34, kind='unbounded', backend=['sat', 'cadical'],
                clause='a nonce compute_handshake_pow reports was accepted by handshake_pow_valid for the same ids, key and difficulty')]
    G += [Group('store.clz', 'pow_store', 'C19/store.c', entry='h_clz', unwind=257, kind='constant-unwind', bound='<=32 bytes x 8 bits',
                clause='StoreProof count_leading_zero_bits == clz for every digest'),
          Group('store.valid', 'pow_store_v', 'C19/store.c', entry='h_store', defines=['UNIT_V'], replace=SHA, unwind=257, kind='constant-unwind',
                bound='fixed-width encoders; filename length symbolic and unbounded',
                clause='store_pow_valid accepts iff clz(SHA256(chunk id|be64 size|be32 len|filename|be64 nonce)) >= min(difficulty,24)'),
          Group('store.solver', 'pow_store_v', 'C19/store.c', entry='h_solver', defines=['UNIT_V'], enforce='security__compute_store_pow', loop_contracts=True,
                replace=SHA + ['security__store_pow_valid'], unwind=34, kind='unbounded', backend=['sat', 'cadical'],
                clause='every nonce compute_store_pow returns was accepted by store_pow_valid for the same input and effective difficulty (any attempt budget; PRNG opaque)'),
          Group('cli.clz', 'pow_cli', 'C19/cli.c', entry='h_clz', unwind=257, kind='constant-unwind', bound='<=32 bytes x 8 bits',
                clause='CLI count_leading_zero_bits == clz for every digest'),
          Group('cli.transport', 'pow_cli', 'C19/cli.c', entry='h_transport', replace=SHA, unwind=257, kind='constant-unwind',
                bound='fixed-width encoders', clause='CLI transport_pow_valid hashes exactly the node encoding and accepts iff clz >= difficulty'),
          Group('cli.transport.solver', 'pow_cli', 'C19/cli.c', entry='h_transport_solver', enforce='compute_transport_pow', loop_contracts=True,
                replace=SHA + ['transport_pow_valid'], unwind=34, kind='unbounded', backend=['sat', 'cadical'],
                clause='a nonce the CLI solver returns was accepted by transport_pow_valid for the same ids, key and difficulty'),
          Group('token.meets', 'pow_token', 'C19/token.c', entry='h_token', unwind=257, kind='constant-unwind', bound='<=32 bytes',
                clause='digest_meets_difficulty == (clz(digest) >= bits) for every digest length <= 32 and bits 0..255')]
    return G
