/* C08: Sha256::update for every data length (loop contract, unbounded): bytes are absorbed in order exactly once,
   transform is called exactly on full 64-byte blocks of the stream, bit length grows by 8n. */
#include "sha256.c"
#include "C08/common.h"
void harness(void)
{
  crypto__Sha256 s;
  uint64_t in_n;
  __CPROVER_assume(in_n <= 0x0FFFFFFFFFFFFFFFul);
  uint8_t *in_data = in_n ? malloc(in_n) : 0;
  __CPROVER_assume(in_n == 0 || in_data != 0);
  __CPROVER_assume(s.buffer_size_ < 64);
  __CPROVER_assume(__g_j < 64 && __g_k < 64);
  __g_stream_mode = 1;
  __g_calls = 0;
  __g_B0 = s.buffer_size_;
  __g_data = in_data;
  __g_n = in_n;
  for (int i = 0; i < 64; i++) __g_oldbuf[i] = s.buffer_._[i];
  __g_mc_q1 = &s.buffer_._[__g_k];
  __g_mc_q2 = &s.buffer_._[__g_j];
  span_u8 d = {in_data, in_n};
  crypto__Sha256__update(&s, d);
  CANARY_POINT();
}
