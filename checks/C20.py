from vdriver import Group
import importlib.util, os
META = {'level': 'other'}
def _c19():
    spec = importlib.util.spec_from_file_location('chk_C19_for_C20', os.path.join(os.path.dirname(os.path.abspath(__file__)), 'C19.py'))
    m = importlib.util.module_from_spec(spec)
    spec.loader.exec_module(m)
    return m
def groups(tier):
    # the meaning of the PoW predicate the admission relies on: C19's obligations on handshake_pow_valid and its bit counter
    return _groups(tier) + [g for g in _c19().groups(tier) if g.name in ('node.clz', 'node.handshake')]
def _groups(tier):
    K = dict(unit='handshake', harness='C20/admit.c', unwind=3, kind='skeleton', checks=[], skeleton=True, replay='cooldown',
             bound='control-flow skeleton (E3) with value tags')
    return [Group('perform_handshake.admission', entry='h_perform',
                  clause='perform_handshake returns true only with a valid key and a valid PoW for (claimed peer, this node, offered key), or '
                         'for the very key and nonce of an unexpired stored success; a rejection penalises the peer and writes no key/session; '
                         'records are marked successful only after both checks', **K),
            Group('transport_handshake.ack', entry='h_admit',
                  clause='handle_transport_handshake produces an acknowledgement only for an accepted handshake with a valid key', **K)]


def replay(group, trace):
    if group.name.startswith('node.'):
        return None, 'no native replay for this group'
    """the REAL Node: a valid handshake, then (inside the cooldown) the same claimed peer with another key and an invalid nonce"""
    import sys, os
    root = os.path.dirname(os.path.dirname(os.path.abspath(__file__)))
    sys.path.insert(0, os.path.join(root, 'replay'))
    import replaylib as R
    exe = R.build_full('C20.cpp', with_daemon=False, exclude=['src/core/Node.cpp'])
    rc, out = R.run(exe, [], timeout=120)
    last = [l for l in out.strip().splitlines() if l.strip()][-1:] or ['']
    return rc == 1, last[0][:400]
