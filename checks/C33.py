from vdriver import Group
META = {'level': 'proof'}
def groups(tier):
    return [Group('parse.contract', 'stun', 'C33/parse.c', enforce='network__parse_stun_response', loop_contracts=True,
                  replace=['cxx_inet_ntop', 'str_from_cstr'],
                  unwind=17, unwind_by={'cxx_equal_u8': 13, 'cxx_memcpy': 17, 'network__parse_stun_response': 13},
                  backend=['sat'], timeout=900, kind='unbounded',
                  clause='for every datagram (length <= 65535): no out-of-bounds read; a result implies Binding Success, matching '
                         'transaction id, a well-formed (XOR-)MAPPED-ADDRESS attribute inside the datagram, RFC 5389 decoding')]
