/* C08: Sha256::finalize emits exactly the FIPS 180-4 5.1.1 padding for every pending buffer and bit length,
   and returns the big-endian state. */
#include "sha256.c"
#include "C08/common.h"
void harness(void)
{
  crypto__Sha256 s;
  __CPROVER_assume(s.buffer_size_ < 64);
  __CPROVER_assume(__g_j < 64);
  __g_stream_mode = 0;
  __g_calls = 0;
  crypto__Sha256 old = s;
  arr_u8_32 dg = crypto__Sha256__finalize(&s);
  uint64_t b = old.buffer_size_;
  uint64_t blocks = b < 56 ? 1 : 2;
  for (uint64_t blk = 0; blk < 2; blk++) {
    if (blk < blocks) {
      uint64_t p = 64 * blk + __g_j;
      uint8_t want;
      if (p < b) want = old.buffer_._[p];
      else if (p == b) want = 0x80;
      else if (p >= 64 * blocks - 8) want = (uint8_t)(old.bit_len_ >> (8 * (64 * blocks - 1 - p)));
      else want = 0;
      __CPROVER_assert((blk == 0 ? __g_log0 : __g_log1) == want, "block handed to transform is the FIPS padding");
    }
  }
  for (int i = 0; i < 8; i++) {
    __CPROVER_assert(dg._[4 * i] == (uint8_t)(s.state_._[i] >> 24) && dg._[4 * i + 1] == (uint8_t)(s.state_._[i] >> 16) &&
                     dg._[4 * i + 2] == (uint8_t)(s.state_._[i] >> 8) && dg._[4 * i + 3] == (uint8_t)(s.state_._[i]),
                     "digest is the big-endian state");
  }
  for (int i = 0; i < 64; i++) __CPROVER_assert(s.buffer_._[i] == 0, "buffer wiped");
  CANARY_POINT();
}
