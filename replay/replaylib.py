"""native replay helpers: compile a small C++ driver together with the CURRENT /repo sources and run it"""
import os, subprocess, hashlib, json
ROOT = os.path.dirname(os.path.dirname(os.path.abspath(__file__)))
REPO = os.environ.get('VERIF_REPO', '/repo')


def build(driver, sources, extra=()):
    """compile replay/<driver> with the listed /repo sources (relative paths); returns path of the binary"""
    outdir = os.path.join(os.environ.get('VERIF_BUILD') or os.path.join(ROOT, 'build'), 'replay')
    os.makedirs(outdir, exist_ok=True)
    h = hashlib.sha256()
    files = [os.path.join(ROOT, 'replay', driver)] + [os.path.join(REPO, s) for s in sources]
    for f in files:
        h.update(open(f, 'rb').read())
    for top in ('include', 'src'):       # drivers may #include repository .cpp files directly
        for root, _, fs in sorted(os.walk(os.path.join(REPO, top))):
            for f in sorted(fs):
                h.update(open(os.path.join(root, f), 'rb').read())
    exe = os.path.join(outdir, os.path.splitext(driver)[0] + '-' + h.hexdigest()[:12])
    if not os.path.exists(exe):
        cmd = ['g++', '-std=c++20', '-O1', '-I' + os.path.join(REPO, 'include'), '-I' + REPO, '-D_FILE_OFFSET_BITS=64'] + list(extra) + files + ['-o', exe, '-lpthread']
        r = subprocess.run(cmd, stdout=subprocess.PIPE, stderr=subprocess.STDOUT)
        if r.returncode != 0:
            raise RuntimeError('replay build failed: ' + r.stdout.decode()[-1500:])
    return exe


def run(exe, args, timeout=20):
    try:
        env = dict(os.environ, ASAN_OPTIONS='detect_leaks=0')
        r = subprocess.run([exe] + [str(a) for a in args], stdout=subprocess.PIPE, stderr=subprocess.STDOUT, timeout=timeout, env=env)
        return r.returncode, r.stdout.decode(errors='replace')[-2000:]
    except subprocess.TimeoutExpired:
        return 124, 'timeout'


def num(v, default=0):
    if v is None:
        return default
    s = str(v).strip().rstrip('ulUL')
    try:
        return int(s, 0)
    except ValueError:
        return {'TRUE': 1, 'FALSE': 0}.get(s.upper(), default)
