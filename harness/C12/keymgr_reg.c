/* C12 (session key): KeyManager::register_session_with_material from ANY prior state of the peer's entry (absent or present with
   arbitrary contents): afterwards current_key(peer) is HMAC(key = the shared secret's 32 bytes, data = the handshake material),
   so both ends -- which hold the same shared secret (C12 leaf) and build the same material (sorted publics) -- hold the same key. */
#include "keymgr.c"
#include "common.h"
void h_register(void)
{
  network__KeyManager *in_km = malloc(sizeof(*in_km)); arr_u8_32 in_peer; crypto__Key *in_secret = malloc(sizeof(crypto__Key)); int64_t in_ref;
  uint8_t *in_mat = malloc(8);
  __CPROVER_assume(in_km && in_secret && in_mat && in_km->contexts_.n <= 1);
  __g_h_calls = 0;
  network__KeyManager__register_session_with_material(in_km, &in_peer, in_secret, (span_u8){in_mat, 8}, in_ref);
  __CPROVER_assert(__g_h_calls == 1 && __g_h_key == in_secret->bytes._ && __g_h_keyn == 32 && __g_h_data == in_mat && __g_h_datan == 8, "one HMAC: key = shared secret, data = handshake material");
  opt_arr_u8_32 k = network__KeyManager__current_key(in_km, &in_peer);
  __CPROVER_assert(k.has && k.v._[0] == __g_h_out._[0] && k.v._[7] == __g_h_out._[7] && k.v._[19] == __g_h_out._[19] && k.v._[31] == __g_h_out._[31],
                   "the peer's current key IS that HMAC, whatever was registered for the peer before");
  __CPROVER_assert(in_km->contexts_.e[0].second.counter == 0 && in_km->contexts_.e[0].second.last_rotation == in_ref, "rotation state restarts");
  CANARY_POINT();
}
