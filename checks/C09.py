from vdriver import Group
META = {'level': 'proof'}
def groups(tier):
    return [Group('block.rfc8439', 'chacha20', 'C09/block.c', entry='h_block_plain', unwind=65,
                  backend=['cvc5', 'cadical'], kind='constant-unwind', bound='10 double rounds, 16-word loops, 64 output bytes',
                  clause='chacha20_block(key, nonce, counter) == RFC 8439 block function for all 2^384 inputs, and the verbatim '
                         'ensures clause of its contract holds under the verbatim requires clause'),
            Group('block.frame', 'chacha20', 'C09/block.c', entry='h_block_frame', enforce='crypto__chacha20_block', unwind=65,
                  backend=['sat'], kind='constant-unwind', bound='10 double rounds, 16-word loops',
                  clause='chacha20_block under --enforce-contract: writes only *buffer, memory safe, for all inputs'),
            Group('apply.stream', 'chacha20', 'C09/apply.c', entry='h_apply', enforce='crypto__ChaCha20__apply',
                  replace=['crypto__chacha20_block', 'vec_u8_resize'], loop_contracts=True, unwind=65, backend=['cadical', 'sat'],
                  kind='unbounded', timeout=900,
                  clause='apply: for every length >= 1, output[g] = input[g] ^ block(counter0 + g/64 mod 2^32)[g mod 64], |output| = |input|'),
            Group('apply.empty', 'chacha20', 'C09/apply.c', entry='h_apply_empty', unwind=65, kind='constant-unwind', bound='input length 0',
                  clause='apply on empty input yields empty output'),
            Group('apply.e2e.len130', 'chacha20_e2e', 'C09/e2e.c', entry='h_apply_e2e', defines=['LEN=130', 'CXX_VEC_CAP=160', 'CXX_FIXED_STORAGE'], unwind=66, unwind_by={'vec_u8_resize': 132},
                  backend=['cvc5', 'cadical'], kind='bounded', bound='input length 130 bytes (three blocks, last one partial); key, nonce, counter, data symbolic',
                  timeout=900, checks=[], clause='apply == input XOR RFC 8439 keystream over three blocks incl. the 32-bit counter wrap, independent of the internal structure'),
            Group('apply.involution', None, 'C09/apply.c', entry='h_involution_lemma', kind='unbounded',
                  clause='lemma: (x ^ k) ^ k == x, hence apply(apply(x)) == x given apply.stream')]
