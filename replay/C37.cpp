// native replay for C37: the REAL StructuredLogger::escape_json on the counterexample bytes (hex-encoded argv[1]); prints the escaped
// text as hex.  The caller decodes it as a JSON string with Python's json module and compares with the input.
#include "ephemeralnet/daemon/StructuredLogger.hpp"
#include <cstdio>
#include <string>
int main(int argc, char** argv) {
    if (argc < 2) return 2;
    const std::string h = argv[1];
    std::string text;
    for (std::size_t i = 0; i + 1 < h.size(); i += 2) text.push_back(static_cast<char>(std::stoi(h.substr(i, 2), nullptr, 16)));
    const auto e = ephemeralnet::daemon::StructuredLogger::escape_json(text);
    for (unsigned char c : e) std::printf("%02x", c);
    std::printf("\n");
    return 0;
}
