/* C31 (E2, real code with the string model; std::filesystem::path as its POSIX text): for EVERY input string of at most N bytes
   (all 256 byte values in every position), the name the sanitiser returns is either empty (the caller then falls back to the hex
   chunk id / does not record a name) or a safe single path component: no '/', no '\\', no control byte, none of : * ? " < > |,
   not "." and not "..", at most 255 bytes.  For sanitize_filename_hint (the hint `eph store` sends, re-sanitised by the node) the
   component clauses are checked: never a separator, never "." / "..", at most 255 bytes. */
#if defined(UNIT_FETCH)
#include "filenames.c"
#define SANITIZE(s) main__lambda_sanitize_filename(&(s))
#elif defined(UNIT_NODE)
#include "filenames_node.c"
#define SANITIZE(s) Node__store_chunk__lambda_sanitize_filename(s)
#else
#include "filenames_hint.c"
#endif
#include "common.h"
#ifndef N
#define N 6
#endif
static _Bool reserved(char c) { return c == '/' || c == '\\' || c == ':' || c == '*' || c == '?' || c == '"' || c == '<' || c == '>' || c == '|'; }
static _Bool control(char c) { unsigned char u = (unsigned char)c; return u < 32 || u == 127; }
static void check_component(str r, _Bool strict)
{
  __CPROVER_assert(r.n <= 255, "the name is at most 255 bytes long");
  __CPROVER_assert(!(r.n == 1 && r.p[0] == '.') && !(r.n == 2 && r.p[0] == '.' && r.p[1] == '.'), "the name is never \".\" or \"..\"");
  uint64_t g; __CPROVER_assume(g < r.n);
  __CPROVER_assert(r.p[g] != '/', "the name contains no path separator: the file is a direct child of the chosen directory");
  if (strict) {
    __CPROVER_assert(!reserved(r.p[g]), "the name contains no reserved character (\\ : * ? \" < > |)");
    __CPROVER_assert(!control(r.p[g]), "the name contains no control byte");
  }
}
void h_sanitize(void)
{
  char in_text[N + 1]; uint64_t in_len; __CPROVER_assume(in_len <= N);
  str s = str_from_n(in_text, in_len);
#if defined(UNIT_FETCH) || defined(UNIT_NODE)
  str r = SANITIZE(s);
  check_component(r, 1);
#else
  opt_str r = security__sanitize_filename_hint((strview){s.p, s.n});
  __CPROVER_assert(__exc == 0, "sanitize_filename_hint does not throw");
  if (r.has) { __CPROVER_assert(r.v.n > 0, "a hint that is offered is not empty"); check_component(r.v, 0); }
#endif
  CANARY_POINT();
}
