from vdriver import Group
META = {'level': 'other'}
def groups(tier):
    K = dict(unit='node_admit', harness='C21/admit.c', unwind=3, kind='skeleton', checks=[], skeleton=True, timeout=900, backend=['sat', 'cadical'],
             replay='ttl', bound='control-flow skeleton (E3) with value tags; loops unrolled twice')
    return [Group('enforce_manifest_ttl', 'ttl', 'C02/sanitize.c', entry='h_enforce', enforce='enforce_manifest_ttl',
                  clause='for every remaining lifetime and sanitised window: below the minimum (or non-positive) => rejected; otherwise min(remaining, max): never extended'),
            Group('ingest.derived_state', entry='h_ingest',
                  clause='ingest_manifest: cached manifest and key shares only for a decodable, threshold-meeting, unexpired manifest; share lifetime = manifest_ttl', **K),
            Group('receive.derived_state', entry='h_receive',
                  clause='receive_chunk: replica, announcement and key shares live for manifest_ttl; nothing changes on the reject paths', **K),
            Group('announce.derived_state', entry='h_announce',
                  clause='handle_announce: key shares live for manifest_ttl; nothing changes for an expired / too short-lived manifest', **K),
            Group('announce.contact_ttl', 'announce_ttl', 'C03/contact_ttl.c', entry='h_contact_ttl', enforce='Node__handle_announce__slice_contact_ttl', unwind=3, kind='unbounded',
                  backend=['sat', 'cadical', 'cvc5'], replay='contact', timeout=300,
                  clause='handle_announce (the statements computing the provider contact lifetime, lowered as a slice): for every announced TTL the contact '
                         'lives no longer than the admitted manifest TTL and at least the minimum TTL'),
            Group('shards.lifetime', 'kad_shards', 'C11/shards.c', entry='h_publish_lookup', replace=['chunk_id_to_string'], unwind=8, kind='unbounded',
                  backend=['cvc5', 'z3', 'sat'], replay='republish', timeout=300, defines=['CXX_FIXED_STORAGE', 'CXX_VEC_CAP=4'],
                  clause='publish_shards / shard_record (E2, all prior entry states, TTLs and clock readings): the share record lives for exactly the TTL it was '
                         'published with (a re-registration never keeps an older, longer deadline) and is not served at or after its deadline')]
def replay(group, trace):
    """two REAL nodes: lifetimes of state derived from manifests with 50 s / 3000 s / 10 days / 5 s / 29 s / expired left (min 30 s, max 1 h)"""
    import sys, os
    root = os.path.dirname(os.path.dirname(os.path.abspath(__file__)))
    sys.path.insert(0, os.path.join(root, 'replay'))
    import replaylib as R
    exe = R.build_full('C11.cpp', with_daemon=False)
    rc, out = R.run(exe, [group.replay if group.replay in ('republish', 'contact') else 'ttl'], timeout=240)
    last = [l for l in out.strip().splitlines() if l.strip()][-1:] or ['']
    return rc == 1, last[0][:400]
