#!/bin/bash
# runall.sh [tier] : every claimed check, one after another; summary in /tmp/p/runall.txt
cd /verif; T=${1:-quick}; : > /tmp/p/runall.txt
for c in $(python3 -c 'import json; print(" ".join(c["property_id"] for c in json.load(open("MANIFEST.json"))["checks"]))'); do
  s=$(date +%s); timeout 3000 ./check $c --tier $T > /tmp/p/all-$c.log 2>&1; rc=$?
  echo "$c rc=$rc $(( $(date +%s) - s ))s $(tail -1 /tmp/p/all-$c.log | cut -c1-80)" >> /tmp/p/runall.txt
done
echo ALLDONE >> /tmp/p/runall.txt
