// native replay for C11 / C03: two REAL Nodes.  S stores a payload; R imports the replica.
//   roundtrip : R.receive_chunk(manifest, ciphertext) returns exactly the payload, S.fetch_chunk too
//   tamper    : a flipped ciphertext bit / a manifest with another content hash must be refused and leave R untouched
//   republish : storing the same chunk id again (new key) must leave the node able to return the NEW payload; re-registering a
//               manifest with a shorter lifetime must not keep the older, longer share deadline
//   ttl       : state R derives from a manifest expires no later than the manifest (and never later than max TTL);
//               expired manifests and manifests with less than min TTL left are refused without state change
// exit 1 = the property is violated on the real code.
#include "ephemeralnet/core/Node.hpp"
#include "ephemeralnet/protocol/Manifest.hpp"
#include <cstdio>
#include <string>
using namespace ephemeralnet;
using namespace std::chrono;
static bool has_state(Node& n, const ChunkId& c) {
    const auto key = chunk_id_to_string(c);
    bool stored = false; for (const auto& e : n.stored_chunks()) if (e.id == c) stored = true;
    return stored || n.manifest_cache_.count(key) || n.dht_.shard_table_.count(key) || n.dht_.table_.count(key);
}
int main(int argc, char** argv) {
    const std::string scenario = argc > 1 ? argv[1] : "all";
    Config cs{}; cs.identity_seed = 41u; cs.min_manifest_ttl = seconds(30); cs.max_manifest_ttl = seconds(3600);
    Config cr = cs; cr.identity_seed = 42u;
    PeerId ids{}, idr{}; ids[0] = 0xC1; idr[0] = 0xC2;
    Node S(ids, cs), R(idr, cr);
    ChunkId chunk{}; chunk[0] = 0x11;
    const ChunkData payload{'t', 'h', 'e', ' ', 'p', 'a', 'y', 'l', 'o', 'a', 'd', 0, 1, 2, 3};
    const auto manifest = S.store_chunk(chunk, payload, seconds(120), std::string("a.bin"));
    const auto uri = protocol::encode_manifest(manifest);
    const auto record = S.export_chunk_record(chunk);
    if (!record.has_value()) { std::printf("no stored record\n"); return 2; }
    int rc = 0;
    if (scenario == "all" || scenario == "roundtrip") {
        const auto local = S.fetch_chunk(chunk);
        if (!local.has_value() || *local != payload) { std::printf("REPRODUCED: the storing node does not return the stored payload\n"); return 1; }
        if (record->data == payload) { std::printf("REPRODUCED: the stored bytes are the plaintext, not its encryption\n"); return 1; }
        Node R2(idr, cr);
        const auto got = R2.receive_chunk(uri, record->data);
        if (!got.has_value() || *got != payload) { std::printf("REPRODUCED: a faithful replica import does not yield the stored payload\n"); return 1; }
    }
    if (scenario == "all" || scenario == "tamper") {
        for (std::size_t pos = 0; pos < record->data.size(); ++pos) {
            Node R3(idr, cr);
            auto bad = record->data; bad[pos] ^= 0x01;
            const auto got = R3.receive_chunk(uri, bad);
            if (got.has_value() || has_state(R3, chunk)) { std::printf("REPRODUCED: a replica with ciphertext byte %zu flipped was %s\n", pos, got.has_value() ? "returned as valid" : "stored/announced although refused"); return 1; }
        }
        auto m2 = manifest; m2.chunk_hash[3] ^= 0x40;
        Node R4(idr, cr);
        const auto got = R4.receive_chunk(protocol::encode_manifest(m2), record->data);
        bool stored = false; for (const auto& e : R4.stored_chunks()) if (e.id == chunk) stored = true;
        if (got.has_value() || stored) { std::printf("REPRODUCED: a replica that does not hash to the manifest's content hash was accepted\n"); return 1; }
    }
    if (scenario == "all" || scenario == "republish") {
        Node S2(ids, cs);
        const ChunkData first{'f', 'i', 'r', 's', 't', ' ', 'v', 'e', 'r', 's', 'i', 'o', 'n', 9, 9};
        const ChunkData second{'s', 'e', 'c', 'o', 'n', 'd', ' ', 'o', 'n', 'e', 7, 7, 7, 7, 7};
        (void)S2.store_chunk(chunk, first, seconds(600), std::string("a.bin"));
        (void)S2.store_chunk(chunk, second, seconds(120), std::string("a.bin"));
        const auto back = S2.fetch_chunk(chunk);
        if (!back.has_value() || *back != second) { std::printf("REPRODUCED: after storing the chunk id a second time the node no longer returns the stored payload (the share record kept the first key)\n"); return 1; }
        const auto key = chunk_id_to_string(chunk);
        const auto it = S2.dht_.shard_table_.find(key);
        if (it != S2.dht_.shard_table_.end() && duration<double>(it->second.expires_at - steady_clock::now()).count() > 125.0) {
            std::printf("REPRODUCED: the share record published with a 120 s TTL keeps an older deadline %.0f s away\n", duration<double>(it->second.expires_at - steady_clock::now()).count()); return 1; }
    }
    if (scenario == "all" || scenario == "contact") {
        // an announcement claims a provider TTL of one hour for a manifest with 60 s left: the recorded contact must not outlive the manifest
        Config cc = cr; cc.announce_pow_difficulty = 0;
        Node R6(idr, cc);
        auto m = manifest; m.expires_at = system_clock::now() + seconds(60);
        protocol::AnnouncePayload ap{}; ap.chunk_id = chunk; ap.peer_id = ids; ap.endpoint = "127.0.0.1:45999"; ap.ttl = seconds(3600);
        ap.manifest_uri = protocol::encode_manifest(m);
        const auto s0 = steady_clock::now();
        R6.handle_announce(ap, ids, protocol::kCurrentMessageVersion);
        const auto key = chunk_id_to_string(chunk);
        const auto it = R6.dht_.table_.find(key);
        if (it == R6.dht_.table_.end() || it->second.holders.empty()) { std::printf("the announcement was not admitted (no contact recorded)\n"); return 2; }
        for (const auto& h : it->second.holders) {
            const double life = duration<double>(h.expires_at - s0).count();
            if (life > 62.0) { std::printf("REPRODUCED: the provider contact learned from a manifest with 60 s left lives %.0f s\n", life); return 1; }
        }
    }
    if (scenario == "all" || scenario == "ttl") {
        struct { long expires_in; bool expect_ok; } cases[] = {{50, true}, {3000, true}, {864000, true}, {5, false}, {29, false}, {-10, false}, {0, false}};
        for (const auto& c : cases) {
            Node R5(idr, cr);
            auto m = manifest; m.expires_at = system_clock::now() + seconds(c.expires_in);
            const auto u = protocol::encode_manifest(m);
            const auto s0 = steady_clock::now();
            const bool ok = R5.ingest_manifest(u);
            const auto got = R5.receive_chunk(u, record->data);
            if (!c.expect_ok) {
                if (ok || got.has_value() || has_state(R5, chunk)) { std::printf("REPRODUCED: a manifest with %ld s left (min TTL 30 s) was accepted or changed state\n", c.expires_in); return 1; }
                continue;
            }
            if (!ok || !got.has_value()) { std::printf("REPRODUCED: a live manifest (%ld s left) was refused\n", c.expires_in); return 1; }
            const double cap = std::min<double>(c.expires_in, 3600) + 2.0;
            const auto key = chunk_id_to_string(chunk);
            auto over = [&](const char* what, steady_clock::time_point t) {
                const double life = duration<double>(t - s0).count();
                if (life > cap) { std::printf("REPRODUCED: %s derived from a manifest with %ld s left lives %.0f s (max TTL 3600 s)\n", what, c.expires_in, life); rc = 1; }
            };
            for (const auto& e : R5.stored_chunks()) if (e.id == chunk) over("the replica", e.expires_at);
            if (const auto it = R5.dht_.shard_table_.find(key); it != R5.dht_.shard_table_.end()) over("the key-share record", it->second.expires_at);
            if (const auto it = R5.dht_.table_.find(key); it != R5.dht_.table_.end()) for (const auto& h : it->second.holders) over("a provider contact", h.expires_at);
            if (rc) return 1;
        }
    }
    std::printf("replica round trip, tamper rejection and derived lifetimes all as required\n");
    return 0;
}
