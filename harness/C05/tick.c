/* C05 (E2: the real Node::tick with the container models; manifest_cache_ / swarm_plans_ in the single-key view -- THE chunk's cached
   manifest and plan; the steps the tick delegates to are replaced by ghost-counting frame contracts): when the cleanup interval has
   elapsed, ONE tick
     - sweeps the chunk store and the DHT tables exactly once,
     - reports every chunk the store sweep returned exactly once in the cleanup notifications, withdraws the node's OWN announcement
       for it and retires its swarm ledger,
     - drops the cached manifest (and with it the swarm plan) of a chunk whose manifest expired by now, and keeps a live one;
   when the interval has not elapsed nothing is swept. */
#include "node_tick.c"
#include "common.h"
#define NS 1000000000l
static Node nd; static arr_u8_32 swept_ids[2];
static void body(_Bool in_due)
{
  Node *n = &nd;
  uint64_t notes0 = n->cleanup_notifications_.n, plans0 = n->swarm_plans_.n;
  _Bool cached = n->manifest_cache_.n == 1;
  int64_t manifest_deadline = n->manifest_cache_.e[0].second.expires_at;
  g_store_swept = g_dht_swept = g_withdrawn = g_retired = 0;
  Node__tick(n);
  if (!in_due) {
    __CPROVER_assert(g_store_swept == 0 && g_dht_swept == 0 && n->cleanup_notifications_.n == notes0, "no cleanup before the cleanup interval has elapsed");
    return;
  }
  __CPROVER_assert(g_store_swept == 1 && g_dht_swept == 1, "a due cleanup tick sweeps the chunk store and the DHT tables exactly once");
  __CPROVER_assert(n->cleanup_notifications_.n == notes0 + g_swept.n, "every chunk the store sweep reported is reported exactly once in the cleanup notifications");
  __CPROVER_assert(g_withdrawn == (int)g_swept.n && g_retired == (int)g_swept.n, "for every expired local chunk the own announcement is withdrawn and the swarm ledger retired");
  if (g_swept.n > 0) __CPROVER_assert(g_withdrawn_who0 == n->id_._[0] && g_withdrawn_chunk0 == swept_ids[g_swept.n - 1]._[0], "the announcement withdrawn is the node's own, for the expired chunk");
  __CPROVER_assert(n->last_cleanup_ == __g_clock_steady, "the cleanup time is recorded");
  if (cached && manifest_deadline <= __g_clock_system) {
    __CPROVER_assert(n->manifest_cache_.n == 0, "after a cleanup tick at T no cached manifest that expired by T is held");
    __CPROVER_assert(n->swarm_plans_.n == 0, "after a cleanup tick at T no swarm plan of a manifest that expired by T is held");
  }
  if (cached && manifest_deadline > __g_clock_system) __CPROVER_assert(n->manifest_cache_.n == 1 && n->manifest_cache_.e[0].second.expires_at == manifest_deadline, "a live cached manifest is kept");
  if (!cached) __CPROVER_assert(n->manifest_cache_.n == 0, "the tick caches nothing");
}
void h_tick(void)
{
  { Node any; nd = any; }
  Node *n = &nd;
  _Bool in_due; int64_t in_now, in_wall;
  __CPROVER_assume(n->manifest_cache_.n <= 1 && n->swarm_plans_.n <= 1 && n->cleanup_notifications_.n <= 2);
  __CPROVER_assume(n->swarm_plans_.n <= n->manifest_cache_.n);     /* a plan exists only for a cached manifest (update_swarm_plan is called right after caching) */
  __CPROVER_assume(n->config_.cleanup_interval >= 0 && n->config_.cleanup_interval <= 1000000 && in_now >= 0 && in_now <= 4000000000000000000l && n->last_cleanup_ >= 0 && n->last_cleanup_ <= in_now);
  __CPROVER_assume(in_wall >= 0 && in_wall <= 4000000000000000000l && n->manifest_cache_.e[0].second.expires_at >= 0);
  __CPROVER_assume(in_due == (in_now - n->last_cleanup_ >= n->config_.cleanup_interval * NS));
  __g_clock_steady = in_now; __g_clock_system = in_wall; __g_clock_fixed = 1;
  static str notes[8]; n->cleanup_notifications_.p = notes; n->cleanup_notifications_.cap = 8;
  { map_str_protocol__Manifest_ent z = {0}; n->manifest_cache_.e[1] = z; } { map_str_SwarmDistributionPlan_ent z = {0}; n->swarm_plans_.e[1] = z; }
  uint64_t k; __CPROVER_assume(k <= 2);
  g_swept.p = swept_ids; g_swept.n = k; g_swept.cap = 2;
  /* run once per constant "entry present / absent" case of the two single-key views */
  if (n->manifest_cache_.n) { n->manifest_cache_.n = 1; if (n->swarm_plans_.n) { n->swarm_plans_.n = 1; body(in_due); } else { n->swarm_plans_.n = 0; body(in_due); } }
  else { n->manifest_cache_.n = 0; n->swarm_plans_.n = 0; body(in_due); }
  CANARY_POINT();
}
