"""Call / construct lowering (mixin for cxx2c.Lowering)."""
import re
from cxxast import LoweringError, params, has_body
from cxxtypes import T, parse_type
from cxx2c_expr import deref, addr

LIBC_PASS = {'memcpy': 'cxx_memcpy', 'memset': 'cxx_memset', 'memcmp': 'cxx_memcmp', 'memmove': 'cxx_memmove',
             'htonl': 'cxx_bswap32', 'ntohl': 'cxx_bswap32', 'htons': 'cxx_bswap16', 'ntohs': 'cxx_bswap16',
             'strlen': 'cxx_strlen', 'isdigit': 'cxx_isdigit', 'isxdigit': 'cxx_isxdigit', 'isspace': 'cxx_isspace',
             'tolower': 'cxx_tolower', 'toupper': 'cxx_toupper', 'iscntrl': 'cxx_iscntrl', 'isalnum': 'cxx_isalnum',
             'isalpha': 'cxx_isalpha', 'isprint': 'cxx_isprint', 'inet_ntop': 'cxx_inet_ntop',
             'inet_pton': 'cxx_inet_pton', 'abs': 'cxx_abs'}


class CallMixin:
    def callee_decl(self, n):
        """referencedDecl of a CallExpr's callee (through casts)."""
        c = n['inner'][0]
        while c.get('kind') in ('ImplicitCastExpr', 'ParenExpr'):
            c = c['inner'][0]
        if c.get('kind') == 'DeclRefExpr':
            return c['referencedDecl'], c
        return None, c

    def canon(self, did):
        """canonical (first) declaration id"""
        n = self.ix.by_id.get(did)
        seen = 0
        while n is not None and 'previousDecl' in n and seen < 10:
            p = self.ix.by_id.get(n['previousDecl'])
            if p is None:
                break
            n = p
            seen += 1
        return n['id'] if n is not None else did

    def fn_cname(self, rd):
        did = rd['id']
        if did not in self.ix.by_id:
            raise LoweringError(f'call to function {rd.get("name")} that is not a repository function and has no model')
        cid = self.canon(did)
        if cid in self.fnmap:
            return self.fnmap[cid]
        return self.request_fn(cid)

    def arg(self, a, ptype=None):
        """lower a call argument; reference binding => address"""
        vc = a.get('valueCategory')
        if ptype is not None:
            isref = ptype.is_ref()
        else:
            isref = vc in ('lvalue', 'xvalue')
        s = self.ex(a)
        if isref:
            at = self.tyof(a)
            if at.kind == 'func':
                return s
            return addr(s)
        return s

    def fn_param_types(self, did):
        n = self.def_node(did) or self.ix.by_id.get(did)
        return [self.tyof(p) for p in params(n)]

    def def_node(self, did):
        cid = self.canon(did)
        return self.defnodes.get(cid)

    def maythrow_call(self, cname, call_text, rett):
        """wrap a call to a may-throw function: hoist + check"""
        if self.cond_depth:
            raise LoweringError(f'call to may-throw {cname} inside conditionally evaluated operand in {self.cur["name"]}')
        self.cur['maythrow'] = True
        if rett.kind == 'prim' and rett.name == 'void':
            self.pre.append(f'{call_text};')
            self.pre.append(self.exc_check())
            return '((void)0)'
        name = self.tmp()
        self.pre.append(f'{self.decl(rett, name)} = {call_text};')
        self.pre.append(self.exc_check())
        return name

    def exc_check(self):
        return f'if (__exc) {{ {self.unwind_stmt()} }}'

    def unwind_stmt(self):
        if self.cur['try']:
            return f'goto {self.cur["try"][-1]};'
        rt = self.cur['ret']
        if rt.kind == 'prim' and rt.name == 'void':
            return 'return;'
        return f'return {self.zero(rt)};'

    def user_call(self, cid, args_text, rett):
        cname = self.fnmap.get(cid) or self.request_fn(cid)
        text = f'{cname}({", ".join(args_text)})'
        self.cur['calls'].add(cname)
        if cname in self.maythrow:
            return self.maythrow_call(cname, text, rett)
        return text

    def e_CallExpr(self, n):
        rd, calleenode = self.callee_decl(n)
        args = n['inner'][1:]
        if rd is None:
            # call through a lambda variable or function object
            raise LoweringError(f'indirect call in {self.cur["name"]}')
        name = rd.get('name')
        if rd['id'] in self.ix.by_id and self.ix.by_id[rd['id']].get('kind') in ('FunctionDecl', 'CXXMethodDecl'):
            cid = self.canon(rd['id'])
            ptypes = self.fn_param_types(cid)
            at = [self.arg(a, ptypes[i] if i < len(ptypes) else None) for i, a in enumerate(args)]
            return self.user_call(cid, at, self.tyof(n).strip_ref() if not self.tyof(n).is_ref() else self.tyof(n))
        return self.std_call(name, n, args, rd)

    def std_call(self, name, n, args, rd):
        rt = self.tyof(n)
        if name in ('min', 'max') and len(args) == 2:
            t = rt.strip_ref()
            if t.kind != 'prim' and self.family(t) not in ('duration', 'time_point'):
                raise LoweringError(f'std::{name} on {t!r}')
            a = self.value_of(args[0])
            b = self.value_of(args[1])
            op = '<' if name == 'min' else '>'
            ta = self.hoist_pure(t, a)
            tb = self.hoist_pure(t, b)
            # std::min(a,b) = (b < a) ? b : a ; std::max(a,b) = (a < b) ? b : a
            if name == 'min':
                return f'(({tb} < {ta}) ? {tb} : {ta})'
            return f'(({ta} < {tb}) ? {tb} : {ta})'
        if name in ('min', 'max') and len(args) == 1:
            # std::min<T>({a, b, c}): initializer-list form, folded left to right (first extreme element, like the library)
            il = args[0]
            while il.get('kind') != 'InitListExpr':
                inner = il.get('inner')
                if not inner:
                    raise LoweringError(f'std::{name} with one argument that is not an initializer list')
                il = inner[0]
            t = rt.strip_ref()
            if t.kind != 'prim':
                raise LoweringError(f'std::{name} initializer-list form on {t!r}')
            items = [self.hoist_pure(t, self.value_of(x)) for x in il.get('inner', [])]
            acc = items[0]
            for x in items[1:]:
                acc = f'(({x} < {acc}) ? {x} : {acc})' if name == 'min' else f'(({acc} < {x}) ? {x} : {acc})'
            return acc
        if name == 'clamp' and len(args) == 3:
            t = rt.strip_ref()
            v, lo, hi = [self.hoist_pure(t, self.value_of(a)) for a in args]
            return f'(({v} < {lo}) ? {lo} : (({hi} < {v}) ? {hi} : {v}))'
        if name == 'visit':
            return self.visit_call(n, args)
        if name == 'get_if' and len(args) == 1:
            vt = self.tyof(args[0]).strip_ref().sub
            i = self.variant_index(vt, rt.sub)
            v = self.hoist_pure(self.tyof(args[0]), self.ex(args[0]))
            return f'(({v})->index == {i} ? &({v})->_{i} : 0)'
        if name == 'holds_alternative':
            raise LoweringError('std::holds_alternative: alternative not recoverable from the AST dump')
        if name == 'zero' and not args:
            return '0'
        if name in ('max', 'min', 'lowest') and not args:
            c = self.ctype(rt.strip_ref())
            lim = {'int64_t': ('INT64_MAX', 'INT64_MIN'), 'uint64_t': ('UINT64_MAX', '0'), 'uint32_t': ('UINT32_MAX', '0'),
                   'int': ('INT32_MAX', 'INT32_MIN'), 'uint16_t': ('UINT16_MAX', '0'), 'uint8_t': ('UINT8_MAX', '0'),
                   'int32_t': ('INT32_MAX', 'INT32_MIN'), 'int16_t': ('INT16_MAX', 'INT16_MIN')}.get(c)
            if lim is None:
                raise LoweringError(f'numeric limit of {c}')
            return f'(({c}){lim[0] if name == "max" else lim[1]})'
        if name in LIBC_PASS:
            self.helpers.add(LIBC_PASS[name])
            return f'{LIBC_PASS[name]}({", ".join(self.ex(a) for a in args)})'
        if name in ('fill', 'copy', 'equal', 'fill_n', 'copy_n', 'reverse', 'all_of', 'any_of', 'find', 'count', 'remove_if', 'find_if', 'sort', 'max_element', 'min_element'):
            return self.std_algorithm(name, n, args)
        if name in ('move', 'forward') and len(args) == 1:
            return self.ex(args[0])
        if name == 'swap' and len(args) == 2:
            t = self.tyof(args[0])
            a = self.ex(args[0])
            b = self.ex(args[1])
            tn = self.hoist(t, a)
            self.pre.append(f'{a} = {b};')
            self.pre.append(f'{b} = {tn};')
            return '((void)0)'
        if name == 'erase' and len(args) == 2 and self.family(self.tyof(args[0]).strip_ref()) == 'vector':
            # std::erase(vector, value) (C++20): stable compaction of the elements that differ from value
            vt = self.tyof(args[0]).strip_ref()
            et = vt.args[0]
            if self.cond_depth:
                raise LoweringError('std::erase in a conditional operand')
            v = self.ex(args[0])
            val = self.hoist(et, self.value_of(args[1]))
            i, w = self.tmp('__ei'), self.tmp('__ew')
            if self.family(et) == 'array' or et.kind == 'rec':
                self.helpers.add('memcmp')
                eq = f'(cxx_memcmp(&({v}).p[{i}], &{val}, sizeof({self.ctype(et)})) == 0)'
            else:
                eq = f'(({v}).p[{i}] == {val})'
            self.cur['loops'] += 1
            self.pre.append(f'uint64_t {w} = 0;')
            self.pre.append(f'for (uint64_t {i} = 0; {i} < ({v}).n; ++{i}) {{ if (!{eq}) {{ ({v}).p[{w}] = ({v}).p[{i}]; ++{w}; }} }}')
            self.pre.append(f'({v}).n = {w};')
            return '((void)0)'
        if name == 'duration_cast' and len(args) == 1:
            return self.duration_convert(self.ex(args[0]), self.tyof(args[0]), rt)
        if name == 'now' and not args:
            fam = 'steady' if 'steady' in (self.tyof(n).__repr__()) else 'system'
            self.helpers.add('clock')
            return f'cxx_clock_now_{fam}()'
        if name == 'to_string' and len(args) == 1:
            self.helpers.add('to_string')
            return f'cxx_to_string_u64((uint64_t)({self.ex(args[0])}))'
        if name == 'distance' and len(args) == 2:
            return f'((int64_t)(({self.ex(args[1])}) - ({self.ex(args[0])})))'
        if name in ('make_optional',):
            return f'(({self.ctype(rt)}){{1, {self.ex(args[0])}}})'
        if name == 'countl_zero' and len(args) == 1:
            w = {'uint32_t': 32, 'uint64_t': 64, 'uint8_t': 8, 'uint16_t': 16}.get(self.ctype(self.tyof(args[0]).strip_ref()))
            if w is None:
                raise LoweringError('std::countl_zero on ' + repr(self.tyof(args[0])))
            return f'cxx_countl_zero(((uint64_t)({self.ex(args[0])})), {w})'
        if name == 'isnan':
            return f'__CPROVER_isnand({self.ex(args[0])})'
        raise LoweringError(f'no model for library function {name}() in {self.cur["name"]}')

    def value_of(self, a):
        """value of an argument that C++ binds to const T& (strip the temporary)"""
        while a.get('kind') in ('MaterializeTemporaryExpr', 'ExprWithCleanups') or \
                (a.get('kind') == 'ImplicitCastExpr' and a.get('castKind') == 'NoOp'):
            a = a['inner'][0]
        return self.ex(a)

    def hoist_pure(self, t, s):
        if re.fullmatch(r'[A-Za-z_]\w*|\d+[ul]*|\(\*[A-Za-z_]\w*\)', s.strip()):
            return s
        if self.cond_depth:
            return f'({s})'   # pure operand evaluated twice: only allowed when free of side effects
        return self.hoist(t, s)

    def std_algorithm(self, name, n, args):
        a0t = self.tyof(args[0])
        if a0t.kind != 'ptr' and not (a0t.kind == 'tmpl' and a0t.name == 'iter'):
            raise LoweringError(f'std::{name} over non-pointer iterators {a0t!r}')
        et = a0t.sub if a0t.kind == 'ptr' else a0t.args[0].args[0]
        s = self.short(et)
        if name == 'fill':
            self.helpers.add(('fill', self.ctype(et), s))
            return f'cxx_fill_{s}({self.ex(args[0])}, {self.ex(args[1])}, ({self.ctype(et)})({self.value_of(args[2])}))'
        if name == 'copy':
            self.helpers.add(('copy', self.ctype(et), s))
            return f'cxx_copy_{s}({self.ex(args[0])}, {self.ex(args[1])}, {self.ex(args[2])})'
        if name == 'copy_n':
            self.helpers.add(('copy', self.ctype(et), s))
            f = self.hoist_pure(a0t, self.ex(args[0]))
            return f'cxx_copy_{s}({f}, {f} + ({self.ex(args[1])}), {self.ex(args[2])})'
        if name == 'equal' and len(args) == 3:
            self.helpers.add(('equal', self.ctype(et), s))
            return f'cxx_equal_{s}({self.ex(args[0])}, {self.ex(args[1])}, {self.ex(args[2])})'
        if name == 'reverse':
            self.helpers.add(('reverse', self.ctype(et), s))
            return f'cxx_reverse_{s}({self.ex(args[0])}, {self.ex(args[1])})'
        if name in ('all_of', 'any_of') and args[2].get('kind') in ('LambdaExpr',) or \
                (name in ('all_of', 'any_of') and self.is_lambda_arg(args[2])):
            lam = self.lambda_fn(self.strip_to_lambda(args[2]))
            if self.cond_depth:
                # inside `a || all_of(..)`: the scan is hoisted in front of the expression; it has no side effects (the lambdas
                # lowered here only read), so evaluating it although the left operand already decided changes nothing
                def pure_iter(x):
                    while x.get('kind') in ('ImplicitCastExpr', 'ParenExpr', 'MaterializeTemporaryExpr', 'ExprWithCleanups', 'CXXBindTemporaryExpr', 'CXXConstructExpr') and len(x.get('inner', [])) == 1:
                        x = x['inner'][0]
                    if x.get('kind') == 'CXXMemberCallExpr' and len(x.get('inner', [])) == 1:
                        me = x['inner'][0]
                        if me.get('kind') == 'MemberExpr' and me.get('name') in ('begin', 'end', 'cbegin', 'cend'):
                            return not self.has_side_effects(me['inner'][0])
                    return not self.has_side_effects(x)
                if not all(pure_iter(x) for x in args[:2]):
                    raise LoweringError(f'std::{name} with side effects in a conditional operand')
            first = self.hoist_pure(a0t, self.ex(args[0])) if not self.cond_depth else f'({self.ex(args[0])})'
            last = self.hoist_pure(a0t, self.ex(args[1])) if not self.cond_depth else f'({self.ex(args[1])})'
            r = self.tmp('__any')
            it = self.tmp('__it')
            want = '1' if name == 'all_of' else '0'
            pt = lam['ptypes'][0]
            call = f'{lam["cname"]}({", ".join(lam["captures"] + [it if pt.is_ref() else "*" + it])})'
            self.pre.append(f'_Bool {r} = {want};')
            self.pre.append(f'for ({self.ctype(a0t)} {it} = {first}; {it} != {last}; ++{it}) '
                            f'{{ if ({"!" if name == "all_of" else ""}{call}) {{ {r} = {1 - int(want)}; break; }} }}')
            self.cur['loops'] += 1
            return r
        if name in ('remove_if', 'find_if') and len(args) == 3 and self.is_lambda_arg(args[2]):
            # std::remove_if / std::find_if with a lambda: the library loop, written out (stable compaction / first match)
            lamnode = self.strip_to_lambda(args[2])
            try:
                lam = self.lambda_fn(lamnode)
            except LoweringError:
                insts = self.lambda_instantiations(lamnode)
                if len(insts) != 1:
                    raise
                lam = insts[0]
            if self.cond_depth:
                raise LoweringError(f'std::{name} in a conditional operand')
            first = self.hoist(a0t, self.ex(args[0]))
            last = self.hoist(a0t, self.ex(args[1]))
            pt = lam['ptypes'][0]
            it = self.tmp('__it')
            call = f'{lam["cname"]}({", ".join(lam["captures"] + [it if pt.is_ref() else "*" + it])})'
            self.cur['loops'] += 1
            if name == 'remove_if':
                w = self.tmp('__w')
                self.pre.append(f'{self.ctype(a0t)} {w} = {first};')
                self.pre.append(f'for ({self.ctype(a0t)} {it} = {first}; {it} != {last}; ++{it}) {{ if (!{call}) {{ *{w} = *{it}; ++{w}; }} }}')
                return w
            r = self.tmp('__f')
            self.pre.append(f'{self.ctype(a0t)} {r} = {last};')
            self.pre.append(f'for ({self.ctype(a0t)} {it} = {first}; {it} != {last}; ++{it}) {{ if ({call}) {{ {r} = {it}; break; }} }}')
            return r
        if name == 'count' and len(args) == 3 and et.kind == 'prim':
            # std::count(first, last, value) over scalars: the library loop
            if self.cond_depth:
                raise LoweringError('std::count in a conditional operand')
            first = self.hoist(a0t, self.ex(args[0]))
            last = self.hoist(a0t, self.ex(args[1]))
            val = self.hoist(et, self.value_of(args[2]))
            it, c = self.tmp('__it'), self.tmp('__cnt')
            self.cur['loops'] += 1
            self.pre.append(f'int64_t {c} = 0;')
            self.pre.append(f'for ({self.ctype(a0t)} {it} = {first}; {it} != {last}; ++{it}) {{ if (*{it} == {val}) ++{c}; }}')
            return c
        if name in ('max_element', 'min_element') and len(args) == 3 and self.is_lambda_arg(args[2]):
            # std::max_element / std::min_element with a comparator lambda: the library loop (first extreme element)
            lam = self.lambda_fn(self.strip_to_lambda(args[2]))
            if self.cond_depth:
                raise LoweringError(f'std::{name} in a conditional operand')
            first = self.hoist(a0t, self.ex(args[0]))
            last = self.hoist(a0t, self.ex(args[1]))
            it, best = self.tmp('__it'), self.tmp('__best')
            def arg(k, e):
                return e if lam['ptypes'][k].is_ref() else '*' + e
            a, b = (best, it) if name == 'max_element' else (it, best)
            call = f'{lam["cname"]}({", ".join(lam["captures"] + [arg(0, a), arg(1, b)])})'
            self.cur['loops'] += 1
            self.pre.append(f'{self.ctype(a0t)} {best} = {first};')
            self.pre.append(f'for ({self.ctype(a0t)} {it} = {first}; {it} != {last}; ++{it}) {{ if ({it} != {best} && {call}) {best} = {it}; }}')
            return best
        if name == 'sort' and len(args) == 3 and self.is_lambda_arg(args[2]):
            # std::sort with a comparator lambda: modelled by insertion sort with that comparator (a sorted permutation of the range;
            # std::sort is not stable either, and nothing under contract depends on the order of equivalent elements)
            lam = self.lambda_fn(self.strip_to_lambda(args[2]))
            if self.cond_depth:
                raise LoweringError('std::sort in a conditional operand')
            first = self.hoist(a0t, self.ex(args[0]))
            last = self.hoist(a0t, self.ex(args[1]))
            i, j, tmp = self.tmp('__si'), self.tmp('__sj'), self.tmp('__sx')
            def arg(k, e):
                return e if lam['ptypes'][k].is_ref() else '*' + e
            call = f'{lam["cname"]}({", ".join(lam["captures"] + [arg(0, j), arg(1, "(" + j + " - 1)")])})'
            self.cur['loops'] += 2
            self.pre.append(f'for ({self.ctype(a0t)} {i} = {first}; {i} != {last}; ++{i}) {{ for ({self.ctype(a0t)} {j} = {i}; {j} != {first} && {call}; --{j}) '
                            f'{{ {self.ctype(et)} {tmp} = *{j}; *{j} = *({j} - 1); *({j} - 1) = {tmp}; }} }}')
            self.models_used.add('std::sort(first, last, comparator) -> insertion sort with the same comparator') if hasattr(self, 'models_used') else None
            return '((void)0)'
        raise LoweringError(f'std::{name} form not modelled in {self.cur["name"]}')

    def oss_put(self, stream, item):
        """`stream << item` on the output-string-stream model: the item is appended (or the formatting state changed) in a prelude
        statement and the stream lvalue is the value of the expression"""
        if self.cond_depth:
            raise LoweringError('stream insertion in a conditional operand')
        while stream.get('kind') == 'ImplicitCastExpr' and stream.get('castKind') in ('DerivedToBase', 'UncheckedDerivedToBase', 'NoOp'):
            stream = stream['inner'][0]     # ostringstream used as its ostream base: the same model object
        o = self.ex(stream)
        x = item
        while x.get('kind') in ('ImplicitCastExpr', 'ParenExpr', 'MaterializeTemporaryExpr', 'ExprWithCleanups', 'CXXBindTemporaryExpr') and len(x.get('inner', [])) == 1:
            x = x['inner'][0]
        if x.get('kind') == 'DeclRefExpr' and x.get('referencedDecl', {}).get('kind') == 'FunctionDecl':
            m = x['referencedDecl'].get('name')
            flag = {'hex': f'({o}).base = 16', 'dec': f'({o}).base = 10', 'uppercase': f'({o}).upper = 1', 'nouppercase': f'({o}).upper = 0'}.get(m)
            if flag is None:
                raise LoweringError(f'stream manipulator std::{m} is not modelled')
            self.pre.append(flag + ';')
            return o
        if x.get('kind') == 'CallExpr':
            cal = x['inner'][0]
            while cal.get('kind') in ('ImplicitCastExpr', 'ParenExpr'):
                cal = cal['inner'][0]
            m = cal.get('referencedDecl', {}).get('name') if cal.get('kind') == 'DeclRefExpr' else None
            if m == 'setw':
                self.pre.append(f'({o}).width = (uint64_t)({self.value_of(x["inner"][1])});')
                return o
            if m == 'setfill':
                self.pre.append(f'({o}).fill = (char)({self.value_of(x["inner"][1])});')
                return o
            if m in ('put_time', 'setprecision', 'quoted'):
                raise LoweringError(f'stream manipulator std::{m} is not modelled')
        t = self.tyof(item).strip_ref()
        fam = self.family(t)
        v = self.value_of(item)
        a = addr(o)
        if fam in ('string', 'strview'):
            tv = self.hoist_pure(t, v)
            self.pre.append(f'cxx_oss_put_n({a}, {tv}.p, {tv}.n);')
        elif t.kind == 'ptr' or t.kind == 'carr':
            self.pre.append(f'cxx_oss_put_cstr({a}, {v});')
        elif t.kind == 'prim' and t.name in ('char',):
            self.pre.append(f'cxx_oss_put_char({a}, {v});')
        elif t.kind == 'prim' and self.ctype(t) in ('int', 'int64_t', 'int16_t', 'long long', 'int32_t'):
            self.pre.append(f'cxx_oss_put_i64({a}, (int64_t)({v}));')
        elif t.kind == 'prim' and self.ctype(t) in ('uint32_t', 'uint64_t', 'uint16_t', 'unsigned long long'):
            self.pre.append(f'cxx_oss_put_u64({a}, (uint64_t)({v}), 0);')
        else:
            raise LoweringError(f'stream insertion of {t!r} is not modelled')
        return o

    def strip_to_lambda(self, a):
        while a.get('kind') != 'LambdaExpr':
            inner = a.get('inner')
            if not inner:
                return None
            a = inner[0]
        return a

    def is_lambda_arg(self, a):
        return self.strip_to_lambda(a) is not None

    # ---------------------------------------------------------------- member calls
    def e_CXXMemberCallExpr(self, n):
        me = n['inner'][0]
        while me.get('kind') in ('ParenExpr', 'ImplicitCastExpr'):
            me = me['inner'][0]
        if me.get('kind') != 'MemberExpr':
            raise LoweringError(f'member call through {me.get("kind")}')
        args = n['inner'][1:]
        base = me['inner'][0]
        mname = me['name']
        mid = me.get('referencedMemberDecl')
        bt = self.tyof(base)
        if mid in self.ix.by_id and self.ix.by_id[mid].get('kind') in ('CXXMethodDecl', 'CXXConversionDecl'):
            cid = self.canon(mid)
            ptypes = self.fn_param_types(cid)
            selfarg = self.ex(base) if me.get('isArrow') else addr(self.ex(base))
            at = [selfarg] + [self.arg(a, ptypes[i] if i < len(ptypes) else None) for i, a in enumerate(args)]
            decl = self.ix.by_id[cid]
            if decl.get('storageClass') == 'static':
                at = at[1:]
            rt = self.tyof(n)
            return self.user_call(cid, at, rt)
        bt0 = bt.strip_ref().sub if me.get('isArrow') else bt.strip_ref()
        if self.family(bt0) == 'array' and mname in ('size', 'max_size') and not self.has_side_effects(base):
            return f'((uint64_t){bt0.args[1].n}ul)'
        obj = self.ex(base)
        if me.get('isArrow'):
            obj = deref(obj)
            bt = bt.strip_ref().sub
        return self.std_method(self.family(bt), bt.strip_ref(), mname, obj, args, n)

    def has_side_effects(self, n):
        k = n.get('kind')
        if k in ('CallExpr', 'CXXMemberCallExpr', 'CXXOperatorCallExpr', 'CompoundAssignOperator', 'LambdaExpr'):
            return True
        if k == 'BinaryOperator' and n.get('opcode') == '=':
            return True
        if k == 'UnaryOperator' and n.get('opcode') in ('++', '--'):
            return True
        if k == 'CXXConstructExpr' and self.family(self.tyof(n)) == 'rec':
            return True
        return any(self.has_side_effects(c) for c in n.get('inner', []))

    def std_method(self, fam, bt, m, obj, args, n):
        A = lambda i: self.ex(args[i])
        if fam == 'array':
            N = bt.args[1].n
            if m == 'size':
                return f'((uint64_t){N}ul)'
            if m in ('data', 'begin', 'cbegin'):
                return f'{obj}._'
            if m in ('end', 'cend'):
                return f'({obj}._ + {N})'
            if m == 'empty':
                return '1' if N == 0 else '0'
            if m == 'fill':
                et = bt.args[0]
                self.helpers.add(('fill', self.ctype(et), self.short(et)))
                return f'cxx_fill_{self.short(et)}({obj}._, {obj}._ + {N}, ({self.ctype(et)})({self.value_of(args[0])}))'
            if m == 'front':
                return f'{obj}._[0]'
            if m == 'back':
                return f'{obj}._[{N - 1}]'
        if fam == 'span':
            if m == 'size':
                return f'{obj}.n'
            if m == 'size_bytes':
                return f'({obj}.n * sizeof(*{obj}.p))'
            if m in ('data', 'begin'):
                return f'{obj}.p'
            if m == 'end':
                return f'({obj}.p + {obj}.n)'
            if m == 'empty':
                return f'({obj}.n == 0)'
            if m == 'front':
                return f'{obj}.p[0]'
            if m == 'back':
                return f'{obj}.p[{obj}.n - 1]'
            if m == 'subspan':
                ct = self.ctype(self.tyof(n))
                o = self.hoist_pure(bt, obj)
                off = self.hoist_pure(T('prim', 'unsigned long'), A(0))
                self.helpers.add('assert')
                if len(args) == 1 or args[1].get('kind') == 'CXXDefaultArgExpr':
                    return f'(({ct}){{{o}.p + cxx_precond_le({off}, {o}.n), {o}.n - {off}}})'
                cnt = self.hoist_pure(T('prim', 'unsigned long'), A(1))
                return f'(({ct}){{{o}.p + cxx_precond_le({off}, {o}.n), cxx_precond_le({cnt}, {o}.n - {off})}})'
            if m == 'first':
                ct = self.ctype(self.tyof(n))
                o = self.hoist_pure(bt, obj)
                self.helpers.add('assert')
                return f'(({ct}){{{o}.p, cxx_precond_le({A(0)}, {o}.n)}})'
            if m == 'last':
                ct = self.ctype(self.tyof(n))
                o = self.hoist_pure(bt, obj)
                c = self.hoist_pure(T('prim', 'unsigned long'), A(0))
                self.helpers.add('assert')
                return f'(({ct}){{{o}.p + ({o}.n - cxx_precond_le({c}, {o}.n)), {c}}})'
        if fam in ('vector', 'string', 'strview'):
            et = bt.args[0]
            s = self.short(et)
            pre = {'vector': f'vec_{s}', 'string': 'str', 'strview': 'strview'}[fam]
            if fam == 'string' and self.spec.options.get('path_model') == 'text' and m in ('filename', 'string', 'native', 'generic_string'):
                if m == 'filename':
                    self.helpers.add('str')
                    return f'cxx_path_filename({obj})'
                self.helpers.add('str')
                return f'str_clone({obj})'
            if m in ('size', 'length'):
                return f'{obj}.n'
            if m in ('data', 'begin', 'cbegin', 'c_str'):
                return f'{obj}.p'
            if m in ('end', 'cend'):
                if fam == 'vector' and et.kind == 'rec':
                    # vectors of records may be value-initialised (p == 0, n == 0) by the map model: begin() + 0 of an empty
                    # vector is valid C++, but NULL + 0 is flagged by CBMC's pointer check
                    return f'(({obj}.n) ? {obj}.p + {obj}.n : {obj}.p)'
                return f'({obj}.p + {obj}.n)'
            if m == 'empty':
                return f'({obj}.n == 0)'
            if m == 'front':
                return f'{obj}.p[0]'
            if m == 'back':
                return f'{obj}.p[{obj}.n - 1]'
            reserved = fam == 'vector' and obj in self.spec.options.get('model_reserve', '').split(',')
            if m == 'reserve' and not reserved:
                # capacity is not modelled, but reserve(n) raises std::length_error when n exceeds max_size(): an argument that is not a
                # plain size() / constant expression (e.g. the result of a subtraction that can wrap) is checked for that
                a0 = A(0)
                if self.cond_depth == 0 and re.search(r'[-]', a0):
                    self.helpers.add('assert')
                    esz = f'sizeof({self.ctype(et)})' if fam == 'vector' else '1'
                    self.pre.append(f'if ((uint64_t)({a0}) > 0x7FFFFFFFFFFFFFFFul / {esz}) {{ __exc = EXC_length_error; {self.unwind_stmt()} }}')
                    self.cur['maythrow'] = True
                    self.cur['throws'].add('std::length_error')
                return '((void)0)'
            if m in ('shrink_to_fit',):
                return '((void)0)'
            if fam != 'strview':
                self.helpers.add(('vec', self.ctype(et), s) if fam == 'vector' else 'str')
                if m == 'resize' and len(args) == 1:
                    return f'{pre}_resize({addr(obj)}, {A(0)})'
                if m == 'resize' and len(args) == 2:
                    return f'{pre}_resize_fill({addr(obj)}, {A(0)}, {self.value_of(args[1])})'
                if m == 'reserve':   # @option model_reserve: capacity is modelled, push_back below capacity keeps the storage
                    return f'{pre}_reserve({addr(obj)}, {A(0)})'
                if m == 'clear':
                    return f'{pre}_clear({addr(obj)})'
                if m in ('push_back', 'emplace_back') and len(args) == 1:
                    return f'{pre}_push_back{"_reserved" if reserved else ""}({addr(obj)}, {self.value_of(args[0])})'
                if m == 'emplace_back' and len(args) == 2 and self.family(et) == 'pair':
                    # vector<pair<A, B>>::emplace_back(a, b): the pair is built from the two arguments
                    return f'{pre}_push_back{"_reserved" if reserved else ""}({addr(obj)}, (({self.ctype(et)}){{{self.value_of(args[0])}, {self.value_of(args[1])}}}))'
                if m == 'swap' and len(args) == 1:
                    # member swap of two containers of the same model type: the three-word representations are exchanged
                    if self.cond_depth:
                        raise LoweringError('container swap in a conditional operand')
                    o2 = self.ex(args[0])
                    tn = self.hoist(bt, obj)
                    self.pre.append(f'{obj} = {o2};')
                    self.pre.append(f'{o2} = {tn};')
                    return '((void)0)'
                if m == 'pop_back':
                    return f'{pre}_pop_back({addr(obj)})'
                if m == 'pop_front':
                    return f'{pre}_pop_front({addr(obj)})'
                if m == 'insert' and len(args) == 3:
                    return f'{pre}_insert_range({addr(obj)}, {A(0)}, {A(1)}, {A(2)})'
                if m == 'assign' and len(args) == 2 and self.tyof(args[0]).kind == 'ptr' and self.tyof(args[1]).kind == 'prim' \
                        and fam == 'string':
                    return f'(({obj}) = str_from_n({A(0)}, {A(1)}))'
                if m == 'assign' and len(args) == 2 and self.tyof(args[0]).kind != 'prim':
                    return f'{pre}_assign_range({addr(obj)}, {A(0)}, {A(1)})'
                if m == 'assign' and len(args) == 2:
                    return f'{pre}_assign_fill({addr(obj)}, {A(0)}, {self.value_of(args[1])})'
                if m == 'erase' and fam == 'string' and args and self.tyof(args[0]).strip_ref().kind == 'prim':
                    # std::string::erase(pos, count = npos): throws out_of_range when pos > size()
                    cnt = A(1) if len(args) > 1 and args[1].get('kind') != 'CXXDefaultArgExpr' else '((uint64_t)-1)'
                    return self.maythrow_call('str_erase_pos', f'str_erase_pos({addr(obj)}, {A(0)}, {cnt})', T('prim', 'void'))
                if m == 'erase' and len(args) == 2:
                    return f'{pre}_erase_range({addr(obj)}, {A(0)}, {A(1)})'
                if m == 'erase' and len(args) == 1:
                    return f'{pre}_erase_range({addr(obj)}, {A(0)}, ({A(0)}) + 1)'
            if fam in ('string', 'strview'):
                self.helpers.add('str')
                if m == 'append' and len(args) == 1 and self.family(self.tyof(args[0])) == 'string':
                    return f'str_append({addr(obj)}, {self.value_of(args[0])})'
                if m == 'append' and len(args) == 1 and self.tyof(args[0]).strip_ref().kind in ('ptr', 'carr'):
                    return f'str_append_cstr({addr(obj)}, {self.value_of(args[0])})'
                if m == 'append' and len(args) == 2 and self.tyof(args[0]).kind == 'prim':
                    return f'str_append_fill({addr(obj)}, {A(0)}, {A(1)})'
                if m == 'substr':
                    a1 = A(1) if len(args) > 1 and args[1].get('kind') != 'CXXDefaultArgExpr' else '((uint64_t)-1)'
                    kind = 'str' if fam == 'string' else 'strview'
                    return self.maythrow_call('substr', f'{kind}_substr({obj}, {A(0)}, {a1})', self.tyof(n)) \
                        if fam == 'string' else f'strview_substr({obj}, {A(0)}, {a1})'
                if m == 'find' and self.tyof(args[0]).kind == 'prim':
                    a1 = A(1) if len(args) > 1 and args[1].get('kind') != 'CXXDefaultArgExpr' else '0'
                    return f'cxx_find_char({obj}.p, {obj}.n, {A(0)}, {a1})'
                if m == 'find_first_of' and self.tyof(args[0]).kind == 'ptr':
                    a1 = A(1) if len(args) > 1 and args[1].get('kind') != 'CXXDefaultArgExpr' else '0'
                    o = self.hoist_pure(bt, obj)
                    return f'cxx_find_first_of_cstr({o}.p, {o}.n, {A(0)}, {a1})'
                if m == 'rfind' and self.tyof(args[0]).kind == 'ptr' and len(args) >= 2 and re.sub(r'[()\s]|uint64_t|ul', '', A(1)) == '0':
                    # s.rfind(literal, 0): the only possible match position is 0 (the prefix test idiom)
                    o = self.hoist_pure(bt, obj)
                    return f'cxx_rfind0_cstr({o}.p, {o}.n, {A(0)})'
                if m == 'starts_with' and self.tyof(args[0]).kind == 'ptr':
                    o = self.hoist_pure(bt, obj)
                    return f'(cxx_rfind0_cstr({o}.p, {o}.n, {A(0)}) == 0)'
        if bt.strip_ref().kind == 'ptr' and fam not in ('iter',):
            # smart pointers lowered to plain pointers
            if m == 'operator bool':
                return f'(({obj}) != 0)'
            if m in ('lock', 'get') and not args:
                return f'({obj})'
            if m == 'reset' and not args:
                return f'(({obj}) = 0)'
            if m == 'expired' and not args:
                return f'(({obj}) == 0)'
        if fam == 'oss':
            if m == 'str' and not args:
                self.helpers.add('str')
                return f'str_clone(({obj}).buf)'
        if fam == 'atomic':
            # std::atomic<T> under sequential semantics (the lowering drops concurrency; C36 is not applicable)
            if m == 'load':
                return obj
            if m == 'store':
                return f'((void)({obj} = {A(0)}))'
            if m in ('fetch_add', 'fetch_sub'):
                if self.cond_depth:
                    raise LoweringError('atomic fetch_add in a conditional operand')
                t0 = self.hoist(bt.args[0], obj)
                self.pre.append(f'{obj} = {obj} {"+" if m == "fetch_add" else "-"} ({A(0)});')
                return t0
            if m in ('compare_exchange_weak', 'compare_exchange_strong'):
                e = A(0)
                return f'(({obj} == {e}) ? ({obj} = {A(1)}, (_Bool)1) : ({e} = {obj}, (_Bool)0))'
            if m == 'exchange':
                if self.cond_depth:
                    raise LoweringError('atomic exchange in a conditional operand')
                t0 = self.hoist(bt.args[0], obj)
                self.pre.append(f'{obj} = {A(0)};')
                return t0
        if fam == 'map':
            name = self.ctype(bt)
            for a in args:
                if self.has_side_effects(a) and self.family(self.tyof(a)) != 'iter':
                    if self.cond_depth:
                        raise LoweringError('map key with side effects in a conditional operand')
                    self.pre.append(f'(void)({self.ex(a)});')
            if m in ('find', 'begin', 'cbegin', 'lower_bound'):
                o = self.hoist_pure(T('ptr', sub=bt), addr(obj)) if not re.fullmatch(r'[\w.>\-()*&]+', obj) else addr(obj)
                return f'(({o})->n ? &({o})->e[0] : &({o})->e[1])'
            if m in ('end', 'cend'):
                return f'(&({obj}).e[1])'
            if m in ('count', 'contains', 'size'):
                return f'({obj}).n'
            if m == 'empty':
                return f'(({obj}).n == 0)'
            if m == 'clear':
                return f'((void)(({obj}).n = 0))'
            if m == 'erase' and len(args) == 1:
                if self.family(self.tyof(args[0])) == 'iter':
                    self.helpers.add('assert')
                    return f'(({obj}).n = 0, &({obj}).e[1])'
                return f'(({obj}).n ? (({obj}).n = 0, (uint64_t)1) : (uint64_t)0)'
            if m in ('try_emplace', 'emplace', 'insert_or_assign') and len(args) == 2:
                # single-key view: try_emplace/emplace insert only when the entry is absent, insert_or_assign always assigns;
                # the result is the library's pair<iterator, bool> (bool = "a new entry was inserted")
                if self.cond_depth:
                    raise LoweringError(f'map::{m} in a conditional operand')
                ins = self.tmp('__ins')
                self.pre.append(f'_Bool {ins} = !({obj}).n;')
                val = self.value_of(args[1])
                if m == 'insert_or_assign':
                    self.pre.append(f'({obj}).e[0].second = {val}; ({obj}).n = 1;')
                else:
                    self.pre.append(f'if ({ins}) {{ ({obj}).e[0].second = {val}; ({obj}).n = 1; }}')
                rt = self.tyof(n)
                try:
                    pct = self.ctype(rt)
                    return f'(({pct}){{&({obj}).e[0], {ins}}})'
                except LoweringError:
                    return ins
            if m == 'try_emplace' and len(args) == 1:
                # try_emplace(key): a value-initialised mapped value is inserted when the entry is absent
                if self.cond_depth:
                    raise LoweringError('map::try_emplace in a conditional operand')
                ins = self.tmp('__ins')
                vt = bt.args[1]
                self.pre.append(f'_Bool {ins} = !({obj}).n;')
                self.pre.append(f'if ({ins}) {{ ({obj}).e[0].second = {self.zero(vt)}; ({obj}).n = 1; }}')
                rt = self.tyof(n)
                try:
                    pct = self.ctype(rt)
                    return f'(({pct}){{&({obj}).e[0], {ins}}})'
                except LoweringError:
                    return ins
            if m == 'at' and len(args) == 1:
                o = obj
                self.maythrow_inline(f'!({o}).n', 'std::out_of_range')
                return f'({o}).e[0].second'
        if fam == 'optional':
            if m == 'has_value':
                return f'{obj}.has'
            if m == 'value':
                self.helpers.add('assert')
                o = self.hoist_pure(bt, obj) if not re.fullmatch(r'[\w.>\-()*]+', obj) else obj
                chk = self.maythrow_inline(f'!{o}.has', 'std::bad_optional_access')
                return f'{o}.v'
            if m == 'reset':
                return f'((void)({obj}.has = 0))'
            if m == 'value_or':
                return f'({obj}.has ? {obj}.v : {self.value_of(args[0])})'
        if fam == 'duration':
            if m == 'count':
                return obj
        if fam == 'time_point':
            if m == 'time_since_epoch':
                return obj
        if fam == 'rec' and getattr(bt, 'name', '') == 'std::filesystem::path':
            if m == 'clear':
                return '((void)0)'      # opaque path: nothing observable
        raise LoweringError(f'no model for {fam}::{m}/{len(args)} in {self.cur["name"]}')

    def map_index(self, t, o, keynode):
        if self.has_side_effects(keynode):
            if self.cond_depth:
                raise LoweringError('map key with side effects in a conditional operand')
            self.pre.append(f'(void)({self.ex(keynode)});')
        return f'(*{self.ctype(t)}_index({addr(o)}))'

    def maythrow_inline(self, cond, exc):
        from cxx2c import EXC
        if self.cond_depth:
            raise LoweringError(f'throwing library call inside conditional operand in {self.cur["name"]}')
        self.cur['maythrow'] = True
        self.pre.append(f'if ({cond}) {{ __exc = {EXC[exc]}; {self.unwind_stmt()} }}')

    # ---------------------------------------------------------------- operator calls
    def e_CXXOperatorCallExpr(self, n):
        rd, _ = self.callee_decl(n)
        op = rd['name'].replace('operator', '')
        args = n['inner'][1:]
        t0 = self.tyof(args[0])
        f0 = self.family(t0)
        if op == '<<' and f0 == 'oss':
            return self.oss_put(args[0], args[1])
        if rd['id'] in self.ix.by_id and self.ix.by_id[rd['id']].get('kind') in ('CXXMethodDecl', 'FunctionDecl'):
            cid = self.canon(rd['id'])
            decl = self.ix.by_id[cid]
            if decl.get('isImplicit') or decl.get('explicitlyDefaulted'):
                if op == '=':
                    return f'({self.ex(args[0])} = {self.ex(args[1])})'
                if op == '==' and f0 == 'rec':
                    return self.rec_eq(t0.strip_ref(), self.ex(args[0]), self.ex(args[1]))
                raise LoweringError(f'implicit operator{op} on {t0!r}')
            ptypes = self.fn_param_types(cid)
            if decl.get('kind') == 'CXXMethodDecl':
                at = [addr(self.ex(args[0]))] + [self.arg(a, ptypes[i] if i < len(ptypes) else None)
                                                 for i, a in enumerate(args[1:])]
            else:
                at = [self.arg(a, ptypes[i] if i < len(ptypes) else None) for i, a in enumerate(args)]
            return self.user_call(cid, at, self.tyof(n))
        if op == '()' and f0 == 'rec' and t0.strip_ref().name == 'std::random_device':
            return 'cxx_nondet_u32()'
        if op == '()' and (f0 == 'rng' or (f0 == 'rec' and t0.strip_ref().name in ('std::mt19937_64', 'std::mt19937'))):
            # PRNG engines and distributions are opaque: a draw is ANY value of the result type (over-approximation)
            rc = self.ctype(self.tyof(n).strip_ref())
            fnm = {'uint64_t': 'cxx_nondet_u64', 'uint32_t': 'cxx_nondet_u32', 'int': 'cxx_nondet_int'}.get(rc)
            if fnm is None:
                raise LoweringError(f'random draw of type {rc}')
            for a in args[1:]:
                self.ex(a)
            return f'{fnm}()'
        if op == '[]':
            o = self.ex(args[0])
            i = self.ex(args[1])
            if f0 == 'array':
                return f'{o}._[{i}]'
            if f0 in ('span', 'vector', 'string', 'strview'):
                return f'{o}.p[{i}]'
            if f0 == 'map':
                return self.map_index(t0.strip_ref(), o, args[1])
        if op == '=':
            a = self.ex(args[0])
            t1 = self.tyof(args[1])
            if f0 == 'optional' and self.family(t1) != 'optional':
                src = args[1]
                while src.get('kind') in ('MaterializeTemporaryExpr', 'ImplicitCastExpr', 'CXXBindTemporaryExpr'):
                    src = src['inner'][0]
                if self.family(self.tyof(src)) == 'optional':
                    return f'({a} = {self.ex(src)})'
                if self.tyof(src).__repr__() == 'std::nullopt_t':
                    return f'({a}.has = 0)'
                return f'({a}.has = 1, {a}.v = {self.ex(src)})'
            if f0 in ('vector', 'string'):
                self.helpers.add(('vec', self.ctype(t0.strip_ref().args[0]), self.short(t0.strip_ref().args[0]))
                                 if f0 == 'vector' else 'str')
                pre = 'str' if f0 == 'string' else f'vec_{self.short(t0.strip_ref().args[0])}'
                if args[1].get('valueCategory') == 'xvalue' or args[1].get('kind') in ('MaterializeTemporaryExpr',):
                    return f'({a} = {self.value_of(args[1])})'
                return f'({a} = {pre}_clone({self.ex(args[1])}))'
            return f'({a} = {self.value_of(args[1])})'
        if op in ('==', '!=') and f0 == 'array':
            t = t0.strip_ref()
            self.helpers.add('cxx_memcmp')
            neg = '!' if op == '!=' else ''
            a = self.ex(args[0])
            b = self.ex(args[1])
            return f'({neg}(cxx_memcmp({a}._, {b}._, sizeof({self.ctype(t)})) == 0))'
        if op == '<' and f0 == 'array':
            t = t0.strip_ref()
            if self.ctype(t.args[0]) != 'uint8_t':
                raise LoweringError('operator< on array of non-byte')
            self.helpers.add('cxx_memcmp')
            return f'(cxx_memcmp({self.ex(args[0])}._, {self.ex(args[1])}._, {t.args[1].n}) < 0)'
        if f0 == 'optional':
            o = self.ex(args[0])
            if op == '*' and len(args) == 1:
                return f'{o}.v'
            if op == '->':
                return f'(&{o}.v)'
            if op in ('==', '!=') and self.tyof(args[1]).__repr__() == 'std::nullopt_t':
                return f'({"!" if op == "==" else ""}{o}.has)'
        if f0 in ('duration', 'time_point') or (len(args) > 1 and self.family(self.tyof(args[1])) in ('duration', 'time_point')):
            return self.chrono_op(op, args, n)
        if f0 in ('vector', 'string') and op in ('==', '!='):
            et = t0.strip_ref().args[0]
            t1 = self.tyof(args[1])
            self.helpers.add('cxx_memcmp')
            a = self.hoist_pure(t0.strip_ref(), self.ex(args[0]))
            if self.family(t1) in ('vector', 'string', 'strview'):
                b = self.hoist_pure(t1.strip_ref(), self.ex(args[1]))
                e = f'({a}.n == {b}.n && cxx_memcmp({a}.p, {b}.p, {a}.n * sizeof(*{a}.p)) == 0)'
            else:  # const char*
                b = self.ex(args[1])
                self.helpers.add('str')
                e = f'str_eq_cstr({a}, {b})'
            return e if op == '==' else f'(!{e})'
        if f0 == 'string' and op == '+=':
            self.helpers.add('str')
            t1 = self.tyof(args[1])
            if t1.kind == 'prim':
                return f'str_push_back({addr(self.ex(args[0]))}, {self.ex(args[1])})'
            if self.family(t1) in ('string', 'strview'):
                return f'str_append_n({addr(self.ex(args[0]))}, {self.hoist_pure(t1.strip_ref(), self.ex(args[1]))}.p, {self.hoist_pure(t1.strip_ref(), self.ex(args[1]))}.n)'
            return f'str_append_cstr({addr(self.ex(args[0]))}, {self.ex(args[1])})'
        if f0 == 'iter' or (len(args) > 1 and self.family(self.tyof(args[1])) == 'iter'):
            if len(args) == 2 and op in ('+', '-', '==', '!=', '<', '>', '<=', '>=', '+=', '-=', '='):
                return f'({self.ex(args[0])} {op} {self.value_of(args[1])})'
            if len(args) == 1 and op == '*':
                return deref(self.ex(args[0]))
            if len(args) == 1 and op == '->':
                return self.ex(args[0])
            if op == '[]':
                return f'{self.ex(args[0])}[{self.ex(args[1])}]'
        if op in ('++', '--') and f0 == 'iter':
            return f'({op}{self.ex(args[0])})' if len(args) == 1 else f'({self.ex(args[0])}{op})'
        if t0.strip_ref().kind == 'ptr':
            # smart pointers lowered to plain pointers (shared_ptr / weak_ptr)
            if len(args) == 1 and op == '->':
                return self.ex(args[0])
            if len(args) == 1 and op == '*':
                return deref(self.ex(args[0]))
            if len(args) == 2 and op == '=':
                return f'({self.ex(args[0])} = {self.value_of(args[1])})'
            if len(args) == 2 and op in ('==', '!='):
                return f'({self.ex(args[0])} {op} {self.value_of(args[1])})'
        raise LoweringError(f'no rule for operator{op} on {t0!r} in {self.cur["name"]}')

    def rec_eq(self, t, a, b):
        c = self.ctype(t)
        parts = []
        for fname, ft, _ in self.record_fields[c]:
            fam = self.family(ft)
            if fam in ('prim', 'enum', 'duration', 'time_point', 'ptr'):
                parts.append(f'{a}.{fname} == {b}.{fname}')
            elif fam == 'array':
                self.helpers.add('cxx_memcmp')
                parts.append(f'cxx_memcmp({a}.{fname}._, {b}.{fname}._, sizeof({a}.{fname})) == 0')
            elif fam == 'rec':
                parts.append(self.rec_eq(ft, f'{a}.{fname}', f'{b}.{fname}'))
            else:
                raise LoweringError(f'defaulted operator== over field {fname} of {ft!r}')
        return '(' + ' && '.join(parts) + ')'

    # ---------------------------------------------------------------- chrono
    def duration_convert(self, s, ft, tt):
        ft = ft.strip_ref()
        tt = tt.strip_ref()
        (fn, fd), (tn, td) = self.period(ft), self.period(tt)
        # value * (fn/fd) / (tn/td) = value * fn*td / (fd*tn)
        num, den = fn * td, fd * tn
        from math import gcd
        g = gcd(num, den)
        num //= g
        den //= g
        if self.ctype(tt) == 'double' or self.ctype(ft) == 'double':
            return f'(({self.ctype(tt)})(({s}) * {num}.0 / {den}.0))'
        if num == 1 and den == 1:
            return s
        if den == 1:
            return f'(({s}) * {num}l)'
        if num == 1:
            return f'(({s}) / {den}l)'
        return f'((({s}) * {num}l) / {den}l)'

    def common_dur(self, a, b):
        from math import gcd
        (an, ad), (bn, bd) = self.period(a), self.period(b)
        # common period = gcd(an/ad, bn/bd) = gcd(an*bd, bn*ad)/(ad*bd)
        num = gcd(an * bd, bn * ad)
        den = ad * bd
        g = gcd(num, den)
        rep = 'double' if 'double' in (self.ctype(a), self.ctype(b)) else 'long'
        return T('tmpl', 'std::chrono::duration', args=[T('prim', rep), T('tmpl', 'std::ratio', args=[
            T('num', n=num // g), T('num', n=den // g)])])

    def dur_of(self, t):
        t = t.strip_ref()
        if self.family(t) == 'time_point':
            return t.args[1]
        return t

    def chrono_op(self, op, args, n):
        ts = [self.tyof(a) for a in args]
        fams = [self.family(t) for t in ts]
        rt = self.tyof(n)
        if len(args) == 2 and all(f in ('duration', 'time_point') for f in fams):
            da, db = self.dur_of(ts[0]), self.dur_of(ts[1])
            if op in ('+=', '-='):
                return f'({self.ex(args[0])} {op} {self.duration_convert(self.ex(args[1]), db, da)})'
            if op == '=':
                return f'({self.ex(args[0])} = {self.duration_convert(self.value_of(args[1]), db, da)})'
            cd = self.common_dur(da, db)
            a = self.duration_convert(self.value_of(args[0]), da, cd)
            b = self.duration_convert(self.value_of(args[1]), db, cd)
            if op in ('+', '-'):
                rd = self.dur_of(rt)
                return self.duration_convert(f'({a} {op} {b})', cd, rd)
            if op in ('<', '>', '<=', '>=', '==', '!='):
                return f'({a} {op} {b})'
            if op == '/':
                return f'({a} / {b})'
            if op == '%':
                return self.duration_convert(f'({a} % {b})', cd, self.dur_of(rt))
        if len(args) == 2 and op in ('*', '/', '%', '*=', '/=') and 'duration' in fams:
            a = self.value_of(args[0])
            b = self.value_of(args[1])
            if op in ('*=', '/='):
                return f'({self.ex(args[0])} {op} {b})'
            src = ts[0] if fams[0] == 'duration' else ts[1]
            return self.duration_convert(f'({a} {op} {b})', self.dur_of(src), self.dur_of(rt))
        if len(args) == 1 and op in ('-', '+'):
            return f'({op}{self.ex(args[0])})'
        if op == '<=>':
            raise LoweringError('operator<=> on chrono')
        raise LoweringError(f'chrono operator{op} on {ts!r}')

    def e_CXXRewrittenBinaryOperator(self, n):
        # a != b rewritten as !(a == b); a < b as (a <=> b) < 0
        inner = n['inner'][0]
        if inner.get('kind') == 'CXXOperatorCallExpr':
            rd, _ = self.callee_decl(inner)
            op = rd['name'].replace('operator', '')
            args = inner['inner'][1:]

            def spaceship(e):
                while e.get('kind') in ('ImplicitCastExpr', 'ParenExpr', 'MaterializeTemporaryExpr'):
                    e = e['inner'][0]
                if e.get('kind') == 'CXXOperatorCallExpr' and self.callee_decl(e)[0]['name'] == 'operator<=>':
                    return e['inner'][1:]
                return None
            if op in ('<', '>', '<=', '>=') and len(args) == 2:
                ab = spaceship(args[0])
                if ab is not None:
                    return self.cmp_operands(op, ab[0], ab[1], n)
                ba = spaceship(args[1])
                if ba is not None:
                    # 0 op (x <=> y)  ==  (x <=> y) flip(op) 0
                    flip = {'<': '>', '>': '<', '<=': '>=', '>=': '<='}[op]
                    return self.cmp_operands(flip, ba[0], ba[1], n)
        return self.ex(inner)

    def cmp_operands(self, op, a, b, n):
        ta, tb = self.tyof(a), self.tyof(b)
        fa, fb = self.family(ta), self.family(tb)
        if fa in ('duration', 'time_point') and fb in ('duration', 'time_point'):
            return self.chrono_op(op, [a, b], n)
        if fa == 'prim' and fb == 'prim':
            return f'({self.ex(a)} {op} {self.ex(b)})'
        if fa == 'array' and fb == 'array' and self.ctype(ta.strip_ref()) == self.ctype(tb.strip_ref()):
            et = ta.strip_ref().args[0]
            if et.kind == 'prim' and self.ctype(et) == 'uint8_t':
                # std::array<uint8_t, N> compared lexicographically: memcmp order on unsigned bytes
                self.helpers.add('memcmp')
                return f'(cxx_memcmp({self.ex(a)}._, {self.ex(b)}._, sizeof({self.ctype(ta.strip_ref())})) {op} 0)'
        raise LoweringError(f'three-way comparison on {ta!r} / {tb!r}')

    # ---------------------------------------------------------------- construction
    def e_CXXConstructExpr(self, n):
        t = self.tyof(n)
        fam = self.family(t)
        args = [a for a in n.get('inner', []) if a.get('kind') != 'CXXDefaultArgExpr']
        if fam == 'rec':
            return self.construct_rec(t, n, args)
        if fam == 'rng':
            for a in args:
                if self.has_side_effects(a):
                    if self.cond_depth:
                        raise LoweringError('PRNG constructed in a conditional operand')
                    self.pre.append(f'(void)({self.ex(a)});')   # arguments are evaluated (for their effects) and dropped
            return '((cxx_rng){0})'
        if not args:
            if fam == 'array':
                return None   # uninitialised (trivial default ctor)
            return self.zero(t)
        a0t = self.tyof(args[0])
        f0 = self.family(a0t)
        if t.strip_ref().kind == 'ptr' and len(args) == 1:
            # a lowered smart pointer constructed from nullptr, from another smart pointer (shared from weak, weak from shared) or from
            # a raw pointer: the pointer value
            if repr(a0t.strip_ref()) == 'std::nullptr_t':
                return '0'
            if a0t.strip_ref().kind == 'ptr':
                return self.value_of(args[0])
        if fam == 'optional' and repr(a0t.strip_ref()) == 'std::nullopt_t':
            return f'(({self.ctype(t)}){{0}})'
        if len(args) == 1 and self.same_ctype(a0t.strip_ref(), t):
            # copy / move construction
            if fam in ('vector', 'string') and args[0].get('valueCategory') == 'lvalue':
                et = t.args[0]
                self.helpers.add(('vec', self.ctype(et), self.short(et)) if fam == 'vector' else 'str')
                pre = 'str' if fam == 'string' else f'vec_{self.short(et)}'
                return f'{pre}_clone({self.ex(args[0])})'
            return self.value_of(args[0])
        ct = self.ctype(t)
        if fam == 'span':
            if len(args) == 1:
                o = self.ex(args[0])
                if f0 == 'array':
                    return f'(({ct}){{{o}._, {a0t.strip_ref().args[1].n}ul}})'
                if f0 in ('vector', 'string', 'span', 'strview'):
                    o = self.hoist_pure(a0t.strip_ref(), o)
                    return f'(({ct}){{({self.ctype(t.args[0])}*){o}.p, {o}.n}})'
                if a0t.strip_ref().kind == 'carr':
                    return f'(({ct}){{{o}, {a0t.strip_ref().n}ul}})'
            if len(args) == 2:
                a1t = self.tyof(args[1])
                if a1t.kind == 'prim':
                    return f'(({ct}){{({self.ctype(t.args[0])}*)({self.ex(args[0])}), {self.ex(args[1])}}})'
                f = self.hoist_pure(a0t, self.ex(args[0]))
                return f'(({ct}){{({self.ctype(t.args[0])}*)({f}), (uint64_t)(({self.ex(args[1])}) - ({f}))}})'
        if fam == 'optional':
            if repr(a0t.strip_ref()) == 'std::nullopt_t':
                return f'(({ct}){{0}})'
            if len(args) == 1:
                return f'(({ct}){{1, {self.value_of(args[0])}}})'
        if fam == 'vector':
            et = t.args[0]
            self.helpers.add(('vec', self.ctype(et), self.short(et)))
            pre = f'vec_{self.short(et)}'
            if len(args) == 2 and a0t.kind in ('ptr',) or (len(args) == 2 and self.family(a0t) == 'iter'):
                return f'{pre}_from_range({self.ex(args[0])}, {self.ex(args[1])})'
            if len(args) == 1 and a0t.kind == 'prim':
                return f'{pre}_filled({self.ex(args[0])}, 0)'
            if len(args) == 2 and a0t.kind == 'prim':
                return f'{pre}_filled({self.ex(args[0])}, {self.value_of(args[1])})'
        if fam == 'string':
            self.helpers.add('str')
            if len(args) == 1 and a0t.kind == 'ptr':
                return f'str_from_cstr({self.ex(args[0])})'
            if len(args) == 2 and a0t.kind == 'ptr' and self.tyof(args[1]).kind == 'prim':
                return f'str_from_n({self.ex(args[0])}, {self.ex(args[1])})'
            if len(args) == 2 and (a0t.kind == 'ptr' or self.family(a0t) == 'iter'):
                f = self.hoist_pure(a0t, self.ex(args[0]))
                return f'str_from_n({f}, (uint64_t)(({self.ex(args[1])}) - ({f})))'
            if len(args) == 2 and a0t.kind == 'prim':
                return f'str_filled({self.ex(args[0])}, {self.ex(args[1])})'
            if len(args) == 1 and f0 == 'strview':
                o = self.hoist_pure(a0t.strip_ref(), self.ex(args[0]))
                return f'str_from_n({o}.p, {o}.n)'
        if fam == 'strview':
            self.helpers.add('str')
            if len(args) == 1 and a0t.kind == 'ptr':
                return f'strview_from_cstr({self.ex(args[0])})'
            if len(args) == 1 and f0 == 'string':
                o = self.hoist_pure(a0t.strip_ref(), self.ex(args[0]))
                return f'((strview){{{o}.p, {o}.n}})'
            if len(args) == 2:
                return f'((strview){{(char*)({self.ex(args[0])}), {self.ex(args[1])}}})'
        if fam == 'duration':
            if len(args) == 1 and a0t.strip_ref().kind == 'prim':
                return f'(({self.ctype(t)})({self.value_of(args[0])}))'
            if len(args) == 1 and f0 == 'duration':
                return self.duration_convert(self.value_of(args[0]), a0t, t)
        if fam == 'time_point':
            if len(args) == 1 and f0 == 'duration':
                return self.duration_convert(self.value_of(args[0]), a0t, self.dur_of(t))
            if len(args) == 1 and f0 == 'time_point':
                return self.duration_convert(self.value_of(args[0]), self.dur_of(a0t), self.dur_of(t))
        if fam == 'pair' and len(args) == 2:
            return f'(({ct}){{{self.value_of(args[0])}, {self.value_of(args[1])}}})'
        if fam == 'variant' and len(args) == 1:
            i = self.variant_index(t, a0t.strip_ref())
            return f'(({ct}){{.index = {i}, ._{i} = {self.value_of(args[0])}}})'
        raise LoweringError(f'no rule to construct {t!r} from ({", ".join(repr(self.tyof(a)) for a in args)}) '
                            f'in {self.cur["name"]}')

    e_CXXTemporaryObjectExpr = e_CXXConstructExpr

    def construct_rec(self, t, n, args):
        c = self.ctype(t)
        from cxx2c import SYSREC
        if t.name in SYSREC:
            return f'(({c}){{0}})'
        ctor = n.get('ctorType', {}).get('qualType', '')
        if len(args) == 1 and self.tyof(args[0]).strip_ref().kind == 'rec' and \
                self.ctype(self.tyof(args[0]).strip_ref()) == c:
            return self.value_of(args[0])    # copy/move: struct copy (deep members handled by model types)
        # find constructor decl
        cands = [(q, d) for q, d in self.ix.lookup(t.name + '::' + t.name.split('::')[-1], kinds=('CXXConstructorDecl',))]
        user = [d for q, d in cands if not d.get('isImplicit') and not d.get('explicitlyDefaulted')
                and len(params(d)) >= len(args) and self.ctor_sig_match(d, ctor)]
        if not user:
            if not args:
                return self.zero(t)
            raise LoweringError(f'no constructor found for {c} with type {ctor}')
        d = user[0]
        cid = self.canon(d['id'])
        cname = self.fnmap.get(cid) or self.request_fn(cid)
        target = getattr(self, 'construct_target', None)
        self.construct_target = None
        tmp = target or self.tmp('__obj')
        if self.cond_depth:
            raise LoweringError('constructor call in conditional operand')
        self.pre.append(f'{c} {tmp};')
        ptypes = self.fn_param_types(cid)
        at = [f'&{tmp}'] + [self.arg(a, ptypes[i]) for i, a in enumerate(args)]
        self.cur['calls'].add(cname)
        self.pre.append(f'{cname}({", ".join(at)});')
        if cname in self.maythrow:
            self.cur['maythrow'] = True
            self.pre.append(self.exc_check())
        return tmp

    def variant_index(self, vt, at):
        vt = vt.strip_ref()
        hits = [i for i, a in enumerate(vt.args) if self.same_ctype(a, at)]
        if len(hits) != 1:
            raise LoweringError(f'cannot select the alternative of {vt!r} for {at!r}')
        return hits[0]

    def visit_call(self, n, args):
        """std::visit(generic lambda, variant): switch over the alternatives, each calling the matching instantiation"""
        lam = self.strip_to_lambda(args[0])
        if lam is None or len(args) != 2:
            raise LoweringError('std::visit form not modelled')
        vt = self.tyof(args[1]).strip_ref()
        v = self.ex(args[1])
        rt = self.tyof(n)
        if not (rt.kind == 'prim' and rt.name == 'void'):
            raise LoweringError('std::visit with a result')
        if self.cond_depth:
            raise LoweringError('std::visit in conditional operand')
        vp = self.tmp('__vis')
        self.pre.append(f'{self.ctype(vt)} *{vp} = {addr(v)};')
        insts = self.lambda_instantiations(lam)
        lines = [f'switch ({vp}->index) {{']
        for i, at in enumerate(vt.args):
            inst = [x for x in insts if self.same_ctype(x['ptypes'][0].strip_ref(), at)]
            if len(inst) != 1:
                raise LoweringError(f'no unique instantiation of the visitor for alternative {i}')
            call = f'{inst[0]["cname"]}({", ".join(inst[0]["captures"] + [f"&{vp}->_{i}" if inst[0]["ptypes"][0].is_ref() else f"{vp}->_{i}"])})'
            lines.append(f'  case {i}: {call}; break;')
            if inst[0]['info'].get('maythrow'):
                self.cur['maythrow'] = True
        lines.append('}')
        self.pre += lines
        if any(x['info'].get('maythrow') for x in insts):
            self.pre.append(self.exc_check())
        return '((void)0)'

    def same_ctype(self, a, b):
        try:
            fa, fb = self.family(a), self.family(b)
            if fa != fb:
                return False
            if fa in ('duration', 'time_point'):
                return repr(a) == repr(b)
            return self.ctype(a) == self.ctype(b)
        except LoweringError:
            return False

    def ctor_sig_match(self, d, ctor):
        if not ctor:
            return True
        return d.get('type', {}).get('qualType', '').replace(' noexcept', '') == ctor.replace(' noexcept', '')
