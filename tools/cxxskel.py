#!/usr/bin/env python3
"""cxxskel: control-flow SKELETON of selected functions of /repo, generated from clang's AST on every run (level E3).

What is kept exactly: the statement structure (sequence, if/else, loops, switch, try/catch, return, throw), the calls to
TRACKED functions (events / predicates named in the .skel spec) in evaluation order, calls between skeleton functions,
local lambdas (as functions), and the boolean structure (!, &&, ||, ?:) of conditions over tracked predicates and facets.
What is dropped: all data that is not a tracked facet -- every other condition becomes a fresh nondeterministic boolean,
every other expression is reduced to the tracked calls it contains, parameters and results are not passed.
The result OVER-APPROXIMATES the control flow of the real function (every real path is a skeleton path), so a typestate
assertion proved on it ("effect E is reached only after check C succeeded") holds for the real code, provided untracked
code does not perform the tracked effects (callees defined in the same file are descended into automatically).  A failed
assertion may be spurious; the driver therefore reports it as a violation only when the native replay reproduces it.

Spec directives (contracts/*.skel):
  @source <file>                       translation unit
  @skeleton <fn> ...                   functions to lower (qualified-name suffix); entry points are called skel_<mangled>
  @event in@<fn>@<callee> <C stmt>     the same, but only inside skeleton function <fn> (also for @pred)
  @event <callee> <C statement>        call to <callee> (qualified-name suffix, or member:<field> for a std::function member,
                                       or ctor:<type> for a construction) emits the statement; @0,@1.. = argument tags
  @pred <callee> <C expression>        bool-valued tracked call: its value in conditions is the C expression
  @tag <Record::field> <n>             field whose value is followed through local copies; arguments that are such a value
                                       (or *v / v.value() / v->second of it) get tag <n>
  @facet <n> has_value <C expression>  `v.has_value()` / `if (v)` on a value tagged <n>
  @facet <n> bool <C expression>       a value tagged <n> used as a condition
  @tagcall <callee> <n>                the value returned by a call to <callee> carries tag <n>; `now() + v` / `v + now()` of a
                                       value tagged n carries tag n+100 (a deadline that far from the present)
  @passthrough <member> ...            `x.<member>` of a tagged value keeps the tag (default: first, second)
  @tagparam <fn> <param> <n>           parameter <param> of skeleton function <fn> carries tag <n>
  @pred binop== <C expression>         built-in `a == b` (`!=` is its negation) when at least one operand is tagged; @0,@1 = tags
  @assigntag <Record::field> <C macro> `x.field = e` emits MACRO(<tag of e>, <tag of x>); also `index:<member>` for `m[k] = e`
  @assign <Record::field> <C macro>    `x.field = e` emits MACRO(<condition skeleton of e>)
  @opaque <callee> <C statement>       a function of the same file that is NOT descended into: the call emits the statement (its
                                       effect on the ghost state as assumed by this skeleton)
  @throws <callee>                     the call may throw (control may leave to the enclosing handler / the caller)
  @return <fn> <C macro name>          `return e;` in <fn> emits MACRO(<condition skeleton of e>);
  @focus <fn> <string literal>         lower only the then-branch of the first `if` in <fn> whose condition mentions the
                                       literal (e.g. the `command == "fetch"` branch of main); entry skel_<fn>__focus
  @option vartags 1                    arguments that are plain local variables get an identity tag (1000+k), the literal 0 gets
                                       900, and mutable locals that receive tagged values carry their current tag in a C variable
  @option limit_tags 1                 std::numeric_limits<uint8_t|uint16_t>::max() carries tag 255 | 65535
  @option loop_bound <k>               loops are unrolled <k> times (default 2): results over loops are BOUNDED
  @prologue ... @end                   ghost state and macros (C)
"""
import sys, os, re, json
sys.path.insert(0, os.path.dirname(os.path.abspath(__file__)))
from cxxast import Index, dump_ast, LoweringError, has_body, params, body

STRIP = ('ImplicitCastExpr', 'ParenExpr', 'ExprWithCleanups', 'MaterializeTemporaryExpr', 'CXXBindTemporaryExpr',
         'ConstantExpr', 'CXXFunctionalCastExpr', 'CXXStaticCastExpr', 'CStyleCastExpr', 'FullExpr',
         'CXXRewrittenBinaryOperator')   # `a != b` rewritten by C++20 as !(a == b): the child is the semantic form


def mangle(q):
    q = re.sub(r'^ephemeralnet::', '', q)
    return re.sub(r'[^A-Za-z0-9_]', '_', q.replace('::', '__'))


class SkelSpec:
    def __init__(self, path):
        self.path, self.unit = path, os.path.splitext(os.path.basename(path))[0]
        self.source = None
        self.skeleton, self.events, self.preds, self.tags, self.facets, self.throws, self.returns = [], {}, {}, {}, {}, set(), {}
        self.options, self.prologue = {}, []
        self.focus = []
        self.tagparams, self.assigns, self.tagcalls = {}, {}, {}
        self.passthrough = {'second', 'first'}
        self.opaque = {}
        self.assigntags = {}
        sec = None
        for raw in open(path):
            line = raw.rstrip('\n')
            st = line.strip()
            if st.startswith('@'):
                parts = st.split(None, 2)
                d = parts[0]
                if d == '@source':
                    self.source = parts[1]
                elif d == '@skeleton':
                    self.skeleton += st.split()[1:]
                elif d == '@event':
                    self.events[parts[1]] = parts[2]
                elif d == '@pred':
                    self.preds[parts[1]] = parts[2]
                elif d == '@tag':
                    self.tags[parts[1]] = int(parts[2])
                elif d == '@facet':
                    n, kind, expr = st.split(None, 3)[1:]
                    self.facets[(int(n), kind)] = expr
                elif d == '@throws':
                    self.throws |= set(st.split()[1:])
                elif d == '@return':
                    self.returns[parts[1]] = parts[2]
                elif d == '@opaque':
                    self.opaque[parts[1]] = parts[2] if len(parts) > 2 else ';'
                elif d == '@passthrough':
                    self.passthrough |= set(st.split()[1:])
                elif d == '@tagcall':
                    self.tagcalls[parts[1]] = int(parts[2])
                elif d == '@tagparam':
                    fn, pn, n = st.split()[1:4]
                    self.tagparams.setdefault(fn, {})[pn] = int(n)
                elif d == '@assign':
                    self.assigns[parts[1]] = parts[2]
                elif d == '@assigntag':
                    self.assigntags[parts[1]] = parts[2]
                elif d == '@focus':
                    self.focus.append((parts[1], parts[2].strip()))
                elif d == '@option':
                    self.options[parts[1]] = parts[2] if len(parts) > 2 else '1'
                elif d == '@prologue':
                    sec = self.prologue
                elif d == '@end':
                    sec = None
                else:
                    raise LoweringError(f'{path}: unknown directive {d}')
                continue
            if sec is not None:
                sec.append(line)
            elif st and not st.startswith('#'):
                raise LoweringError(f'{path}: text outside a section: {line!r}')


def suffix_match(q, pat):
    return q == pat or q.endswith('::' + pat)


class Skel:
    def __init__(self, spec):
        self.spec = spec
        docs = dump_ast(spec.source, spec.options.get('astfilter', 'ephemeralnet').replace('none', ''))
        self.ix = Index(docs, spec.source)
        self.defs = {}      # canonical id -> definition node (functions with bodies in this TU)
        for nid, n in self.ix.by_id.items():
            if n.get('kind') in ('FunctionDecl', 'CXXMethodDecl', 'CXXConstructorDecl') and has_body(n):
                self.defs[self.canon(nid)] = n
        self.out = []           # (cname, text)
        self.protos = []
        self.done = {}
        self.queue = []
        self.tmp = 0
        self.used = {'events': set(), 'preds': set(), 'tags': set(), 'throws': set(), 'returns': set()}
        self.stats = {'functions': 0, 'lambdas': 0, 'conditions': 0, 'nondet_conditions': 0, 'events': 0, 'loops': 0,
                      'try_blocks': 0}
        self._contains = {}
        self.dyntags, self.varids, self.dyn_decls = {}, {}, []
        self.throw_sites = []
        self.range_tags = set()

    # ------------------------------------------------------------ helpers
    def canon(self, did):
        n = self.ix.by_id.get(did)
        k = 0
        while n is not None and 'previousDecl' in n and k < 10:
            p = self.ix.by_id.get(n['previousDecl'])
            if p is None:
                break
            n = p
            k += 1
        return n['id'] if n is not None else did

    def strip(self, e):
        while e is not None and e.get('kind') in STRIP and e.get('inner'):
            e = e['inner'][0]
        return e

    def qname_of(self, did, fallback=None):
        return self.ix.qname.get(did) or self.ix.qname.get(self.canon(did)) or fallback or ''

    def callee(self, n):
        """-> (key, defnode-or-None, argnodes): key is a qualified name, 'member:<field>', 'lambda:<id>' or None"""
        k = n.get('kind')
        if k == 'CXXMemberCallExpr':
            me = self.strip(n['inner'][0])
            args = n['inner'][1:]
            if me.get('kind') == 'MemberExpr' and 'referencedMemberDecl' in me:
                did = me['referencedMemberDecl']
                q = self.qname_of(did, me.get('name'))
                return q, self.defs.get(self.canon(did)), [me['inner'][0]] + args if me.get('inner') else args
            return None, None, args
        if k == 'CallExpr':
            c = self.strip(n['inner'][0])
            args = n['inner'][1:]
            if c.get('kind') == 'DeclRefExpr':
                rd = c['referencedDecl']
                q = self.qname_of(rd['id'], rd.get('name'))
                return q, self.defs.get(self.canon(rd['id'])), args
            if c.get('kind') == 'MemberExpr':      # call through a member function pointer / std::function member
                return 'member:' + c.get('name', ''), None, args
            return None, None, args
        if k == 'CXXOperatorCallExpr':
            c = self.strip(n['inner'][0])
            args = n['inner'][1:]
            opname = c.get('referencedDecl', {}).get('name', '') if c.get('kind') == 'DeclRefExpr' else ''
            if opname == 'operator()' and args:
                obj = self.strip(args[0])
                if obj.get('kind') == 'MemberExpr':
                    return 'member:' + obj.get('name', ''), None, args[1:]
                if obj.get('kind') == 'DeclRefExpr':
                    vid = obj['referencedDecl']['id']
                    if vid in self.lambdas:
                        return 'lambda:' + vid, None, args[1:]
                    return 'var:' + obj['referencedDecl'].get('name', ''), None, args[1:]
            if opname == 'operator[]' and args:
                obj = self.strip(args[0])
                if obj is not None and obj.get('kind') == 'MemberExpr':
                    return 'index:' + obj.get('name', ''), None, args[1:]
            if opname.startswith('operator') and opname != 'operator()':
                did = c.get('referencedDecl', {}).get('id')
                return opname, self.defs.get(self.canon(did)) if did else None, args
            return None, None, args
        if k in ('CXXConstructExpr', 'CXXTemporaryObjectExpr'):
            t = n.get('type', {}).get('qualType', '')
            return 'ctor:' + re.sub(r'^(const )?', '', t), None, n.get('inner', [])
        return None, None, []

    def match(self, table, key):
        if key is None:
            return None
        for pat0 in table:
            pat = pat0
            if pat.startswith('in@'):
                # scoped entry  in@<function suffix>@<callee>  -- applies only inside that skeleton function
                _, fn, pat = pat.split('@', 2)
                if not getattr(self, 'cur_name', '').endswith(mangle(fn)):
                    continue
            if key == pat or (not key.startswith(('member:', 'lambda:', 'ctor:', 'var:', 'index:')) and suffix_match(key, pat)) or \
                    (pat.startswith('ctor:') and key.startswith('ctor:') and suffix_match(key[5:], pat[5:])):
                return pat0
        return None

    def match_unscoped(self, table, key):
        for pat in table:
            if key == pat or (not key.startswith(('member:', 'lambda:', 'ctor:', 'var:', 'index:')) and suffix_match(key, pat)) or \
                    (pat.startswith('ctor:') and key.startswith('ctor:') and suffix_match(key[5:], pat[5:])):
                return pat
        return None

    # does a function defined in this TU (transitively) contain anything tracked?
    def contains_tracked(self, node, seen=None):
        nid = node['id']
        if nid in self._contains:
            return self._contains[nid]
        seen = seen or set()
        if nid in seen:
            return False
        seen.add(nid)
        res = False
        stack = [body(node)] if body(node) else []
        while stack and not res:
            e = stack.pop()
            if e is None:
                continue
            if e.get('kind') in ('CallExpr', 'CXXMemberCallExpr', 'CXXOperatorCallExpr', 'CXXConstructExpr', 'CXXTemporaryObjectExpr'):
                saved = getattr(self, 'lambdas', {})
                self.lambdas = saved
                key, d, _ = self.callee(e)
                if self.match(self.spec.events, key) or self.match(self.spec.preds, key) or self.match(self.spec.throws, key):
                    res = True
                elif d is not None and not self.match(self.spec.opaque, key) and self.contains_tracked(d, seen):
                    res = True
            if e.get('kind') == 'CXXThrowExpr' and self.spec.options.get('track_throw'):
                res = True
            stack.extend(e.get('inner', []))
        self._contains[nid] = res
        return res

    # ------------------------------------------------------------ tags (values followed through local copies)
    def tag_of(self, e):
        """tag of the value an expression denotes (0 = untracked)"""
        e = self.strip(e)
        if e is None:
            return 0
        k = e.get('kind')
        if k == 'MemberExpr':
            did = e.get('referencedMemberDecl')
            q = self.qname_of(did, e.get('name')) if did else e.get('name', '')
            for pat, t in self.spec.tags.items():
                if suffix_match(q, pat):
                    self.used['tags'].add(pat)
                    return t
            if e.get('name') in self.spec.passthrough and e.get('inner'):
                return self.tag_of(e['inner'][0])
            return 0
        if k == 'DeclRefExpr':
            return self.alias.get(e['referencedDecl']['id'], 0)
        if k == 'UnaryOperator' and e.get('opcode') == '*':
            return self.tag_of(e['inner'][0])
        if k == 'CXXOperatorCallExpr':
            c = self.strip(e['inner'][0])
            op = c.get('referencedDecl', {}).get('name', '')
            if op in ('operator*', 'operator->') and len(e['inner']) == 2:
                return self.tag_of(e['inner'][1])
        if k == 'CXXMemberCallExpr':
            me = self.strip(e['inner'][0])
            if me.get('name') in ('value', 'get') and me.get('inner'):
                return self.tag_of(me['inner'][0])
            if me.get('name') in ('size', 'length') and me.get('inner'):
                t0 = self.tag_of(me['inner'][0])
                return t0 + 500 if t0 else 0          # "the size of" a tagged container / string
        if k in ('CXXConstructExpr', 'CXXTemporaryObjectExpr') and len(e.get('inner', [])) == 1:
            return self.tag_of(e['inner'][0])       # copy / move / converting construction of the same value
        if k in ('CallExpr', 'CXXMemberCallExpr'):
            key, _, args = self.callee(e)
            if key and key.split('::')[-1] in ('move', 'forward') and len(args) == 1:
                return self.tag_of(args[0])
            pat = self.match(self.spec.tagcalls, key)
            if pat:
                return self.spec.tagcalls[pat]
            if self.spec.options.get('limit_tags') and key and key.split('::')[-1] == 'max' and not args:
                q = (e.get('type', {}).get('desugaredQualType') or e.get('type', {}).get('qualType') or '')
                lim = {'unsigned char': 255, 'unsigned short': 65535}.get(q.replace('const ', ''))
                if lim:
                    return lim        # std::numeric_limits<uint8_t / uint16_t>::max(): the capacity of a one / two byte field
        if k == 'CXXOperatorCallExpr':
            key, _, _a = self.callee(e)
            pat = self.match(self.spec.tagcalls, key)
            if pat:
                return self.spec.tagcalls[pat]
        if (k == 'BinaryOperator' and e.get('opcode') == '+') or (k == 'CXXOperatorCallExpr' and
                self.strip(e['inner'][0]).get('referencedDecl', {}).get('name') == 'operator+'):
            ops = e['inner'] if k == 'BinaryOperator' else e['inner'][1:]
            if len(ops) == 2:
                ta, tb = self.tag_of(ops[0]), self.tag_of(ops[1])
                def is_now(x):
                    x = self.strip(x)
                    if x is None or x.get('kind') not in ('CallExpr', 'CXXMemberCallExpr'):
                        return False
                    kk, _, _ = self.callee(x)
                    return bool(kk) and kk.split('::')[-1] == 'now'
                if ta and not tb and is_now(ops[1]):
                    return ta + 100
                if tb and not ta and is_now(ops[0]):
                    return tb + 100
        return 0

    def targ(self, e):
        """C expression for the tag of an argument: the dynamic tag variable of a mutable local, else the static tag, else (with
        `@option vartags`) the identity of a local variable (1000+k) or 900 for the literal 0"""
        x = self.strip(e)
        if x is not None and x.get('kind') == 'CXXOperatorCallExpr' and len(x.get('inner', [])) == 2 and \
                self.strip(x['inner'][0]).get('referencedDecl', {}).get('name') in ('operator*', 'operator->'):
            x = self.strip(x['inner'][1])
        if x is not None and x.get('kind') == 'UnaryOperator' and x.get('opcode') == '*':
            x = self.strip(x['inner'][0])
        while x is not None and x.get('kind') in ('CXXConstructExpr', 'CXXTemporaryObjectExpr') and len(x.get('inner', [])) == 1:
            x = self.strip(x['inner'][0])
        if x is not None and x.get('kind') == 'CallExpr':
            kk, _, aa = self.callee(x)
            if kk and kk.split('::')[-1] in ('move', 'forward') and len(aa) == 1:
                x = self.strip(aa[0])
        if x is not None and x.get('kind') == 'DeclRefExpr' and x['referencedDecl']['id'] in self.dyntags:
            return self.dyntags[x['referencedDecl']['id']]
        t = self.tag_of(e)
        if t:
            return str(t)
        if self.spec.options.get('vartags'):
            if x is not None and x.get('kind') == 'IntegerLiteral' and str(x.get('value')) == '0':
                return '900'
            if x is not None and x.get('kind') == 'DeclRefExpr' and x['referencedDecl'].get('kind') in ('VarDecl', 'ParmVarDecl'):
                vid = x['referencedDecl']['id']
                if vid not in self.varids:
                    self.varids[vid] = 1000 + len(self.varids)
                return str(self.varids[vid])
        return '0'

    # ------------------------------------------------------------ expressions
    def nd(self):
        self.stats['nondet_conditions'] += 1
        return 'nondet_bool()'

    def events_in(self, e, lines, ind):
        """emit, in (approximate) evaluation order, the tracked calls contained in expression e"""
        if e is None:
            return
        k = e.get('kind')
        if k == 'LambdaExpr':
            return                       # a lambda VALUE: its body runs when called, not here
        if k == 'ConditionalOperator':
            c, a, b = e['inner']
            cond = self.cond(c, lines, ind)
            la, lb = [], []
            self.events_in(a, la, ind + '  ')
            self.events_in(b, lb, ind + '  ')
            if la or lb:
                lines.append(f'{ind}if ({cond}) {{')
                lines += la
                lines.append(f'{ind}}} else {{')
                lines += lb
                lines.append(f'{ind}}}')
            return
        if k == 'BinaryOperator' and e.get('opcode') in ('&&', '||'):
            a, b = e['inner']
            ca = self.cond(a, lines, ind)
            lb = []
            self.events_in(b, lb, ind + '  ')
            if lb:
                lines.append(f'{ind}if ({"" if e["opcode"] == "&&" else "!"}({ca})) {{')
                lines += lb
                lines.append(f'{ind}}}')
            return
        if k == 'CXXThrowExpr':
            for c in e.get('inner', []):
                self.events_in(c, lines, ind)
            lines.append(f'{ind}{self.throw_stmt()}')
            return
        if k in ('CallExpr', 'CXXMemberCallExpr', 'CXXOperatorCallExpr', 'CXXConstructExpr', 'CXXTemporaryObjectExpr'):
            key, d, args = self.callee(e)
            for a in (e.get('inner', []) if k not in ('CXXConstructExpr', 'CXXTemporaryObjectExpr') else args):
                self.events_in(a, lines, ind)
            if k in ('CXXConstructExpr', 'CXXTemporaryObjectExpr'):
                pass
            self.call_effects(key, d, args, lines, ind, want_value=False)
            return
        for c in e.get('inner', []):
            self.events_in(c, lines, ind)

    def call_effects(self, key, d, args, lines, ind, want_value):
        """emit what a call does; returns the C expression of its boolean value if it is a tracked predicate"""
        pat = self.match(self.spec.events, key)
        if pat:
            self.used['events'].add(pat)
            self.stats['events'] += 1
            ev = self.subst_args(self.spec.events[pat], args).rstrip()
            lines.append(ind + ev + ('' if ev.endswith((';', '}')) else ';'))
        val = None
        pp = self.match(self.spec.preds, key)
        if pp:
            self.used['preds'].add(pp)
            t = f'__p{self.tmp}'
            self.tmp += 1
            lines.append(f'{ind}_Bool {t} = {self.subst_args(self.spec.preds[pp], args)};')
            val = t
        if key and key.startswith('lambda:'):
            lines.append(f'{ind}{self.lambda_name(key[7:])}();')
            self.after_call(lines, ind, True)
        elif d is not None and not pat and not pp and self.match(self.spec.opaque, key):
            # a boundary of this skeleton: the callee is NOT descended into; the spec says what it does to the ghost state
            st = self.spec.opaque[self.match(self.spec.opaque, key)].rstrip()
            lines.append(ind + st + ('' if st.endswith((';', '}')) else ';'))
        elif d is not None and not pat and not pp:
            cid = self.canon(d['id'])
            if cid in self.fnames or self.contains_tracked(d):
                q = self.qname_of(cid)
                for patp, tags in self.spec.tagparams.items():
                    if suffix_match(q, patp):
                        ps = params(d)
                        off = len(args) - len(ps)          # member calls carry the object as first argument
                        for i, pn in enumerate(ps):
                            if pn.get('name') in tags and 0 <= i + off < len(args):
                                got = self.tag_of(args[i + off])
                                if got != tags[pn['name']]:
                                    lines.append(f'{ind}__CPROVER_assert(0, "the call passes a different value for parameter '
                                                 f'{pn["name"]} than the skeleton contract of {patp} assumes (tag {got} instead of {tags[pn["name"]]})");')
                lines.append(f'{ind}{self.request(cid)}();')
                self.after_call(lines, ind, True)
        if d is not None and any(c.get('kind') == 'CXX11NoReturnAttr' for c in d.get('inner', [])) or \
                (key and not key.startswith(('member:', 'lambda:', 'ctor:', 'var:', 'index:')) and self.is_noreturn(key)):
            lines.append(f'{ind}{self.throw_stmt()}   /* [[noreturn]] callee */')
        tp = self.match(self.spec.throws, key)
        if tp:
            self.used['throws'].add(tp)
            lines.append(f'{ind}if (nondet_bool()) {{ {self.throw_stmt(tp)} }}   /* {tp} may throw */')
        return val

    def is_noreturn(self, q):
        for n in self.ix.defs.get(q, []):
            if any(c.get('kind') == 'CXX11NoReturnAttr' for c in n.get('inner', [])):
                return True
        return False

    def after_call(self, lines, ind, may_throw):
        # a skeleton callee that threw: control leaves to the enclosing handler (or the caller)
        if self.spec.options.get('track_throw'):
            lines.append(f'{ind}if (__skel_exc) {{ {self.unwind_stmt()} }}')

    def throw_stmt(self, what='throw expression'):
        if self.spec.options.get('track_throw'):
            self.throw_sites.append({'site': len(self.throw_sites) + 1, 'what': what, 'function': self.cur_name})
            return f'__skel_exc = {len(self.throw_sites)}; {self.unwind_stmt()}'
        return self.unwind_stmt()

    def unwind_stmt(self):
        if self.try_stack:
            return f'goto {self.try_stack[-1]};'
        return 'return;'

    def subst_args(self, text, args):
        def sub(m):
            i = int(m.group(1))
            return self.targ(args[i]) if i < len(args) else '0'
        return re.sub(r'@(\d+)', sub, text)

    def cond(self, e, lines, ind):
        """C boolean expression for condition e; tracked calls inside are emitted to `lines` first"""
        self.stats['conditions'] += 1
        e = self.strip(e)
        if e is None:
            return self.nd()
        k = e.get('kind')
        if k == 'UnaryOperator' and e.get('opcode') == '!':
            return f'!({self.cond(e["inner"][0], lines, ind)})'
        if k == 'BinaryOperator' and e.get('opcode') in ('&&', '||'):
            a = self.cond(e['inner'][0], lines, ind)
            sub = []
            b = self.cond(e['inner'][1], sub, ind)
            if sub:
                # the right operand contains tracked calls: evaluate it only when the left operand lets it
                t = f'__c{self.tmp}'
                self.tmp += 1
                lines.append(f'{ind}_Bool {t} = {a};')
                lines.append(f'{ind}if ({"" if e["opcode"] == "&&" else "!"}{t}) {{')
                lines += ['  ' + s for s in sub]
                lines.append(f'{ind}  {t} = {b};')
                lines.append(f'{ind}}}')
                return t
            return f'(({a}) {e["opcode"]} ({b}))'
        if k == 'CXXBoolLiteralExpr':
            return '1' if e.get('value') else '0'
        opname = None
        if k == 'CXXOperatorCallExpr' and len(e.get('inner', [])) == 3:
            opname = self.strip(e['inner'][0]).get('referencedDecl', {}).get('name', '')[len('operator'):]
        if (k == 'BinaryOperator' and e.get('opcode') in ('==', '!=', '<', '>', '<=', '>=')) or \
                (opname in ('<', '>', '<=', '>=') and any('binop' + o in self.spec.preds for o in ('<', '>'))):
            op = e['opcode'] if k == 'BinaryOperator' else opname
            a, b = (e['inner'][0], e['inner'][1]) if k == 'BinaryOperator' else (e['inner'][1], e['inner'][2])
            sa = self.strip(a)
            # C++20: `x < y` on class types is rewritten to `(x <=> y) < 0`
            if sa is not None and sa.get('kind') == 'CXXOperatorCallExpr' and \
                    self.strip(sa['inner'][0]).get('referencedDecl', {}).get('name') == 'operator<=>' and len(sa['inner']) == 3:
                a, b = sa['inner'][1], sa['inner'][2]
            base = {'!=': '==', '>=': '<', '<=': '>'}.get(op, op)      # a != b == !(a == b), a >= b == !(a < b), a <= b == !(a > b)
            if 'binop' + base in self.spec.preds:
                ta, tb = self.targ(a), self.targ(b)
                if ta != '0' or tb != '0':
                    self.used['preds'].add('binop' + base)
                    self.events_in(a, lines, ind)
                    self.events_in(b, lines, ind)
                    t = f'__p{self.tmp}'
                    self.tmp += 1
                    lines.append(f'{ind}_Bool {t} = {self.spec.preds["binop" + base].replace("@0", ta).replace("@1", tb)};')
                    return t if base == op else f'!({t})'
        if k in ('MemberExpr', 'DeclRefExpr'):
            tb0 = self.tag_of(e)
            if (tb0, 'bool') in self.spec.facets:
                return '(' + self.spec.facets[(tb0, 'bool')] + ')'
        if k == 'CXXMemberCallExpr':
            me = self.strip(e['inner'][0])
            if me.get('name') in ('has_value', 'operator bool') and me.get('inner'):
                o = self.strip(me['inner'][0])
                if o is not None and o.get('kind') == 'DeclRefExpr' and o['referencedDecl']['id'] in self.optvars:
                    return self.optvars[o['referencedDecl']['id']]
                if o is not None and o.get('kind') == 'DeclRefExpr' and o['referencedDecl']['id'] in self.dyntags and \
                        'optional<' in (o.get('type', {}).get('qualType', '')) and \
                        (self.tag_of(o), 'has_value') not in self.spec.facets:
                    return f'({self.dyntags[o["referencedDecl"]["id"]]} != 901)'
            if me.get('name') == 'has_value' and me.get('inner'):
                t = self.tag_of(me['inner'][0])
                if (t, 'has_value') in self.spec.facets:
                    return '(' + self.spec.facets[(t, 'has_value')] + ')'
        if k in ('DeclRefExpr', 'MemberExpr') or (k == 'CXXMemberCallExpr' and self.strip(e['inner'][0]).get('name') == 'operator bool'):
            src = e if k != 'CXXMemberCallExpr' else self.strip(e['inner'][0])['inner'][0]
            t = self.tag_of(src)
            if (t, 'has_value') in self.spec.facets:
                return '(' + self.spec.facets[(t, 'has_value')] + ')'
            if k == 'DeclRefExpr' and e['referencedDecl']['id'] in self.boolvars:
                return self.boolvars[e['referencedDecl']['id']]
            if k == 'DeclRefExpr' and e['referencedDecl']['id'] in self.optvars:
                return self.optvars[e['referencedDecl']['id']]
        if k in ('CallExpr', 'CXXMemberCallExpr', 'CXXOperatorCallExpr'):
            key, d, args = self.callee(e)
            for a in e.get('inner', []):
                self.events_in(a, lines, ind)
            v = self.call_effects(key, d, args, lines, ind, want_value=True)
            if v is not None:
                return v
            if self.callee_ret_kind(key, d):
                t = f'__r{self.tmp}'
                self.tmp += 1
                lines.append(f'{ind}_Bool {t} = __skel_ret;')
                return t
            return self.nd()
        self.events_in(e, lines, ind)
        return self.nd()

    # ------------------------------------------------------------ statements
    def stmts(self, n, ind):
        lines = []
        if n is None:
            return lines
        k = n.get('kind')
        if k == 'CompoundStmt':
            lines.append(ind + '{')
            for c in n.get('inner', []):
                lines += self.stmts(c, ind + '  ')
            lines.append(ind + '}')
        elif k == 'IfStmt':
            inner = list(n.get('inner', []))
            if n.get('hasInit'):
                lines += self.stmts(inner.pop(0), ind)
            if n.get('hasVar'):
                lines += self.stmts(inner.pop(0), ind)
            c = self.cond(inner[0], lines, ind)
            lines.append(f'{ind}if ({c})')
            lines += self.block(inner[1], ind)
            if len(inner) > 2:
                lines.append(f'{ind}else')
                lines += self.block(inner[2], ind)
        elif k in ('ForStmt', 'WhileStmt', 'DoStmt', 'CXXForRangeStmt'):
            self.stats['loops'] += 1
            inner = [c for c in n.get('inner', [])]
            bodyn = inner[-1] if k != 'DoStmt' else inner[0]
            pre = []
            condn = None
            if k == 'ForStmt':
                init, _, condn, inc = (inner + [None] * 5)[:4]
                if init and init.get('kind'):
                    lines += self.stmts(init, ind)
            elif k == 'WhileStmt':
                condn = inner[-2] if len(inner) >= 2 else None
            elif k == 'DoStmt':
                condn = inner[1] if len(inner) > 1 else None
            elif k == 'CXXForRangeStmt':
                rng_tag = 0
                for c in inner[:-1]:
                    if c and c.get('kind') == 'DeclStmt':
                        for d in c.get('inner', []):
                            if d.get('kind') == 'VarDecl' and d.get('name', '').startswith('__range'):
                                ini = [x for x in d.get('inner', []) if x.get('kind')]
                                if ini:
                                    rng_tag = self.tag_of(ini[0])
                        lines += self.stmts(c, ind)
                if rng_tag and inner[-2] and inner[-2].get('kind') == 'DeclStmt':
                    for d in inner[-2].get('inner', []):
                        if d.get('kind') == 'VarDecl':
                            self.alias[d['id']] = rng_tag + 1000     # an ELEMENT of the tagged container
            kb = int(self.spec.options.get('loop_bound', '2'))
            v = f'__l{self.tmp}'
            self.tmp += 1
            lines.append(f'{ind}for (int {v} = 0; {v} < {kb}; ++{v}) /* loop skeleton: at most {kb} iterations (BOUNDED) */ {{')
            cl = []
            c = self.cond(condn, cl, ind + '  ') if condn and condn.get('kind') else self.nd()
            if k == 'CXXForRangeStmt' and rng_tag and 0 < rng_tag < 64:
                # all range-for loops over the SAME tagged container agree on whether it is empty
                self.range_tags.add(rng_tag)
                c = f'({v} == 0 ? __skel_nonempty[{rng_tag}] : {self.nd()})'
            if k != 'DoStmt':
                lines += cl
                lines.append(f'{ind}  if (!({c})) break;')
            lines += self.block(bodyn, ind + '  ')
            if k == 'ForStmt' and len(inner) >= 4 and inner[3] and inner[3].get('kind'):
                self.events_in(inner[3], lines, ind + '  ')
            if k == 'DoStmt':
                lines += cl
                lines.append(f'{ind}  if (!({c})) break;')
            lines.append(f'{ind}}}')
        elif k == 'ReturnStmt':
            e = n['inner'][0] if n.get('inner') else None
            macro = self.cur_return
            if macro and e is not None:
                c = self.ret_value(e, lines, ind) if self.cur_ret_kind else self.cond(e, lines, ind)
                t = f'__rv{self.tmp}'
                self.tmp += 1
                lines.append(f'{ind}_Bool {t} = {c};')
                lines.append(f'{ind}{macro}({t});')
                if self.cur_ret_kind:
                    lines.append(f'{ind}__skel_ret = {t};')
            elif e is not None and self.cur_ret_kind:
                c = self.ret_value(e, lines, ind)
                if c != '__skel_ret':
                    lines.append(f'{ind}__skel_ret = {c};')
            elif e is not None:
                self.events_in(e, lines, ind)
            lines.append(f'{ind}return;')
        elif k == 'DeclStmt':
            for d in n.get('inner', []):
                if d.get('kind') != 'VarDecl':
                    continue
                init = [c for c in d.get('inner', []) if c.get('kind') and not c['kind'].endswith('Attr')]
                tyq = d.get('type', {}).get('qualType', '')
                if self.spec.options.get('vartags') and 'optional<' in tyq and not tyq.startswith('const ') and d['id'] not in self.dyntags:
                    e00 = self.strip(init[0]) if init else None
                    empty = (not init) or (e00 is not None and e00.get('kind') in ('CXXConstructExpr', 'InitListExpr') and not e00.get('inner')) or \
                        (e00 is not None and e00.get('kind') == 'DeclRefExpr' and e00['referencedDecl'].get('name') == 'nullopt')
                    if empty:
                        name = f'__tv{self.tmp}_{re.sub(r"[^A-Za-z0-9_]", "_", d.get("name", "v"))}'
                        self.tmp += 1
                        self.dyntags[d['id']] = name
                        self.dyn_decls.append(f'int {name};')
                        lines.append(f'{ind}{name} = 901;   /* empty optional */')
                        continue
                if not init:
                    continue
                e0 = self.strip(init[0])
                if e0 is not None and e0.get('kind') == 'LambdaExpr':
                    self.lambdas[d['id']] = e0
                    continue
                t = self.tag_of(init[0])
                ty = d.get('type', {}).get('qualType', '')
                if t:
                    self.alias[d['id']] = t
                self.maybe_dyn(d, self.targ(init[0]), lines, ind)
                if e0 is not None and e0.get('kind') in ('CallExpr', 'CXXMemberCallExpr', 'CXXOperatorCallExpr'):
                    key0, d0, a0 = self.callee(e0)
                    if self.match(self.spec.preds, key0) and ('optional<' in ty or ty in ('bool', 'const bool')):
                        for a in e0.get('inner', []):
                            self.events_in(a, lines, ind)
                        v = self.call_effects(key0, d0, a0, lines, ind, want_value=True)
                        (self.optvars if 'optional<' in ty else self.boolvars)[d['id']] = v
                        continue
                    rk = self.callee_ret_kind(key0, d0) if (key0 and (key0.startswith('lambda:') or d0 is not None)) else None
                    if rk is None and d0 is not None and not self.match(self.spec.events, key0) and not self.match(self.spec.preds, key0) \
                            and self.contains_tracked(d0):
                        rk = self.ret_kind_of(d0)
                    if rk:
                        self.events_in(init[0], lines, ind)
                        name = f'__r{self.tmp}_{re.sub(r"[^A-Za-z0-9_]", "_", d.get("name", "v"))}'
                        self.tmp += 1
                        lines.append(f'{ind}_Bool {name} = __skel_ret;')
                        (self.boolvars if rk == 'bool' else self.optvars)[d['id']] = name
                        continue
                if ty in ('bool', 'const bool'):
                    c = self.cond(init[0], lines, ind)
                    name = f'__b{self.tmp}_{re.sub(r"[^A-Za-z0-9_]", "_", d.get("name", "v"))}'
                    self.tmp += 1
                    lines.append(f'{ind}_Bool {name} = {c};')
                    self.boolvars[d['id']] = name
                else:
                    self.events_in(init[0], lines, ind)
        elif k == 'SwitchStmt':
            inner = n.get('inner', [])
            self.events_in(inner[-2] if len(inner) >= 2 else None, lines, ind)
            lines.append(f'{ind}switch (nondet_int())')
            self.case_n = getattr(self, 'case_n', 0)
            lines += self.block(inner[-1], ind)
        elif k == 'CaseStmt':
            self.case_n += 1
            lines.append(f'{ind}case {self.case_n}:')
            sub = [c for c in n.get('inner', []) if c.get('kind') not in ('ConstantExpr', 'IntegerLiteral', 'DeclRefExpr', 'ImplicitCastExpr', 'CharacterLiteral')]
            for c in sub:
                lines += self.stmts(c, ind + '  ')
            lines.append(f'{ind}  ;')
        elif k == 'DefaultStmt':
            lines.append(f'{ind}default:')
            for c in n.get('inner', []):
                lines += self.stmts(c, ind + '  ')
            lines.append(f'{ind}  ;')
        elif k == 'BreakStmt':
            lines.append(f'{ind}break;')
        elif k == 'ContinueStmt':
            lines.append(f'{ind}continue;')
        elif k == 'NullStmt':
            pass
        elif k == 'CXXTryStmt':
            self.stats['try_blocks'] += 1
            lab = f'__catch{self.tmp}'
            after = f'__after{self.tmp}'
            self.tmp += 1
            inner = n.get('inner', [])
            self.try_stack.append(lab)
            lines += self.stmts(inner[0], ind)
            self.try_stack.pop()
            lines.append(f'{ind}goto {after};')
            lines.append(f'{ind}{lab}: ;')
            if self.spec.options.get('track_throw'):
                lines.append(f'{ind}__skel_exc = 0;   /* caught (handlers of every type are merged: over-approximation) */')
            handlers = inner[1:]
            for i, h in enumerate(handlers):
                hb = [c for c in h.get('inner', []) if c.get('kind') == 'CompoundStmt']
                lines.append(f'{ind}{"if" if i == 0 else "else if"} ({"nondet_bool()" if i + 1 < len(handlers) else "1"})')
                lines += self.block(hb[0] if hb else None, ind)
            lines.append(f'{ind}{after}: ;')
        elif k in ('GotoStmt', 'LabelStmt'):
            raise LoweringError('goto/label in a skeleton function')
        else:
            # expression statement
            self.events_in(n, lines, ind)
            # a bare assignment `v = tagged` keeps the tag
            e = self.strip(n)
            if e is not None and e.get('kind') in ('CompoundAssignOperator', 'UnaryOperator') and e.get('inner') and \
                    (e.get('kind') == 'CompoundAssignOperator' or e.get('opcode') in ('++', '--')):
                # `m += x`, `++m`, `m--` on a member with an @assign rule: the rule fires with an arbitrary value
                l = self.strip(e['inner'][0])
                if l is not None and l.get('kind') == 'MemberExpr':
                    did = l.get('referencedMemberDecl')
                    q = self.qname_of(did, l.get('name')) if did else l.get('name', '')
                    base = self.targ(l['inner'][0]) if l.get('inner') else '0'
                    for pat, macro in self.spec.assigns.items():
                        if suffix_match(q, pat):
                            lines.append(f'{ind}{macro}(nondet_bool(), {base});')
                            self.used.setdefault('assigns', set()).add(pat)
            if e is not None and e.get('kind') in ('BinaryOperator', 'CXXOperatorCallExpr'):
                ins = e.get('inner', [])
                if e.get('kind') == 'BinaryOperator' and e.get('opcode') == '=' and len(ins) == 2:
                    self.assign(ins[0], ins[1], lines, ind)
                if e.get('kind') == 'CXXOperatorCallExpr' and len(ins) == 3 and \
                        self.strip(ins[0]).get('referencedDecl', {}).get('name') == 'operator=':
                    self.assign(ins[1], ins[2], lines, ind)
        return lines

    def maybe_dyn(self, d, tagexpr, lines, ind):
        """a mutable local that receives a tagged value gets a C variable that carries its CURRENT tag along each path"""
        ty = d.get('type', {}).get('qualType', '')
        if d['id'] in self.dyntags or ty.startswith('const ') or tagexpr == '0' or not self.spec.options.get('vartags'):
            return
        name = f'__tv{self.tmp}_{re.sub(r"[^A-Za-z0-9_]", "_", d.get("name", "v"))}'
        self.tmp += 1
        self.dyntags[d['id']] = name
        self.dyn_decls.append(f'int {name};')
        lines.append(f'{ind}{name} = {tagexpr};')

    def assign(self, lhs, rhs, lines, ind):
        l = self.strip(lhs)
        if l is not None and l.get('kind') == 'DeclRefExpr':
            vid0 = l['referencedDecl']['id']
            te = self.targ(rhs)
            if vid0 in self.dyntags:
                r0 = self.strip(rhs)
                is_null = r0 is not None and r0.get('kind') == 'DeclRefExpr' and r0['referencedDecl'].get('name') == 'nullopt'
                lines.append(f'{ind}{self.dyntags[vid0]} = {"901" if is_null else (te if te != "0" else "902")};')
            elif te != '0' and self.spec.options.get('vartags') and vid0 in self.ix.by_id:
                self.maybe_dyn(self.ix.by_id[vid0], te, lines, ind)
        if l is not None and l.get('kind') == 'CXXOperatorCallExpr':
            key, _, _a = self.callee(l)
            pat = self.match(self.spec.assigntags, key)
            if pat:
                lines.append(f'{ind}{self.spec.assigntags[pat]}({self.targ(rhs)}, 0);')
        if l is not None and l.get('kind') == 'MemberExpr':
            did = l.get('referencedMemberDecl')
            q = self.qname_of(did, l.get('name')) if did else l.get('name', '')
            base = self.targ(l['inner'][0]) if l.get('inner') else '0'
            for pat, macro in self.spec.assigntags.items():
                if suffix_match(q, pat):
                    self.events_in(rhs, lines, ind)
                    lines.append(f'{ind}{macro}({self.targ(rhs)}, {base});')
            for pat, macro in self.spec.assigns.items():
                if suffix_match(q, pat):
                    c = self.cond(rhs, lines, ind)
                    lines.append(f'{ind}{macro}({c}, {base});')
                    self.used.setdefault('assigns', set()).add(pat)
        if l is not None and l.get('kind') == 'DeclRefExpr':
            vid = l['referencedDecl']['id']
            t = self.tag_of(rhs)
            if t:
                self.alias[vid] = t
            elif vid in self.alias:
                del self.alias[vid]
            if vid in self.boolvars:
                c = self.cond(rhs, lines, ind)
                lines.append(f'{ind}{self.boolvars[vid]} = {c};')

    def block(self, n, ind):
        if n is None:
            return [ind + '{ }']
        if n.get('kind') == 'CompoundStmt':
            return self.stmts(n, ind)
        return [ind + '{'] + self.stmts(n, ind + '  ') + [ind + '}']

    # ------------------------------------------------------------ results of skeleton callees (bool / optional "success" facet)
    def ret_kind_of(self, fnode):
        """'bool' / 'optional' / None from a function (or lambda call operator) declaration"""
        t = (fnode.get('type', {}).get('desugaredQualType') or fnode.get('type', {}).get('qualType', ''))
        head = t.split('(')[0].strip()
        if ' -> ' in t:
            head = t.rsplit(' -> ', 1)[1].strip()
        if head in ('bool', '_Bool'):
            return 'bool'
        if head.startswith('std::optional<') or head.startswith('optional<'):
            return 'optional'
        return None

    def is_optional_type(self, e):
        t = e.get('type', {})
        q = (t.get('desugaredQualType') or t.get('qualType') or '')
        return 'optional<' in q

    def callee_ret_kind(self, key, d):
        if key and key.startswith('lambda:'):
            lam = self.lambdas.get(key[7:])
            for c in lam['inner'][0].get('inner', []) if lam else []:
                if c.get('kind') == 'CXXMethodDecl' and c.get('name') == 'operator()':
                    return self.ret_kind_of(c)
            return None
        if d is not None and (self.canon(d['id']) in self.fnames):
            return self.ret_kind_of(d)
        return None

    def ret_value(self, e, lines, ind):
        """C boolean for the success facet of a returned expression"""
        if self.cur_ret_kind == 'bool':
            return self.cond(e, lines, ind)
        x = self.strip(e)
        if x is None:
            return '0'
        k = x.get('kind')
        if k == 'DeclRefExpr':
            rd = x['referencedDecl']
            if rd.get('name') == 'nullopt':
                return '0'
            if rd['id'] in self.optvars:
                return self.optvars[rd['id']]
        if k in ('CXXConstructExpr', 'CXXTemporaryObjectExpr', 'InitListExpr') and not [c for c in x.get('inner', []) if c.get('kind') != 'CXXDefaultArgExpr']:
            return '0'                      # `return {};` / optional<T>{}
        if k in ('CXXConstructExpr', 'CXXTemporaryObjectExpr') and len(x.get('inner', [])) == 1:
            return self.ret_value(x['inner'][0], lines, ind)
        if k in ('CallExpr', 'CXXMemberCallExpr', 'CXXOperatorCallExpr'):
            key, d, args = self.callee(x)
            for a in x.get('inner', []):
                self.events_in(a, lines, ind)
            self.call_effects(key, d, args, lines, ind, want_value=False)
            if self.callee_ret_kind(key, d):
                return '__skel_ret'
            return 'nondet_bool()' if self.is_optional_type(x) else '1'
        self.events_in(x, lines, ind)
        if self.is_optional_type(x):
            return 'nondet_bool()'          # an optional of unknown state
        return '1'                          # a value converted to optional

    # ------------------------------------------------------------ functions
    def lambda_name(self, vid):
        key = ('lambda', vid)
        if key in self.done:
            return self.done[key]
        lam = self.lambdas[vid]
        name = f'skel_{self.cur_name}__lambda{len([k for k in self.done if isinstance(k, tuple)])}'
        self.done[key] = name
        call = None
        for c in lam['inner'][0].get('inner', []):
            if c.get('kind') == 'CXXMethodDecl' and c.get('name') == 'operator()':
                call = c
        if call is None:
            raise LoweringError('generic lambda in a skeleton function')
        self.stats['lambdas'] += 1
        saved = (self.try_stack, self.cur_return, self.cur_ret_kind, self.boolvars, self.optvars)
        # the C locals that carry tracked booleans of the enclosing function are not visible in the lambda's function:
        # captured ones become arbitrary (sound)
        self.try_stack, self.cur_return, self.cur_ret_kind, self.boolvars, self.optvars = [], None, self.ret_kind_of(call), {}, {}
        text = self.stmts(body(call), '')
        self.try_stack, self.cur_return, self.cur_ret_kind, self.boolvars, self.optvars = saved
        self.protos.append(f'static void {name}(void);')
        self.out.append((name, f'static void {name}(void)\n' + '\n'.join(text) + '\n'))
        return name

    def request(self, cid):
        if cid in self.fnames:
            name = self.fnames[cid]
        else:
            name = 'skel_' + mangle(self.qname_of(cid, 'fn'))
            self.fnames[cid] = name
        if cid not in self.done and cid not in self.queue:
            self.queue.append(cid)
        return name

    def lower_fn(self, cid):
        node = self.defs[cid]
        name = self.fnames[cid]
        q = self.qname_of(cid)
        self.cur_name = mangle(q)
        self.alias, self.boolvars, self.lambdas, self.try_stack = {}, {}, {}, []
        self.optvars = {}
        self.cur_ret_kind = self.ret_kind_of(node)
        self.cur_return = None
        for pat, tags in self.spec.tagparams.items():
            if suffix_match(q, pat):
                for pnode in params(node):
                    if pnode.get('name') in tags:
                        self.alias[pnode['id']] = tags[pnode['name']]
        for pat, macro in self.spec.returns.items():
            if suffix_match(q, pat):
                self.cur_return = macro
                self.used['returns'].add(pat)
        text = self.stmts(body(node), '')
        self.done[cid] = name
        self.protos.append(f'void {name}(void);')
        line = node.get('loc', {}).get('line') or node.get('range', {}).get('begin', {}).get('line')
        self.out.append((name, f'/* skeleton of {q} ({self.spec.source}:{line}) */\nvoid {name}(void)\n' + '\n'.join(text) + '\n'))
        self.stats['functions'] += 1
        return line

    def run(self):
        self.fnames = {}
        self.lambdas = {}
        self.lines_of = {}
        roots = []
        for nm in self.spec.skeleton:
            c = [(q, n) for q, n in self.ix.lookup(nm, kinds=('FunctionDecl', 'CXXMethodDecl')) if has_body(n)]
            if not c:
                raise LoweringError(f'skeleton function {nm} not found in {self.spec.source} (renamed or removed?)')
            for q, n in c:
                cid = self.canon(n['id'])
                self.defs.setdefault(cid, n)
                roots.append(self.request(cid))
        for fn, lit in self.spec.focus:
            c = [(q, n) for q, n in self.ix.lookup(fn, kinds=('FunctionDecl', 'CXXMethodDecl')) if has_body(n)]
            if not c:
                raise LoweringError(f'focus function {fn} not found in {self.spec.source}')
            q, node = c[0]
            target = self.find_if(body(node), lit)
            if target is None:
                raise LoweringError(f'no `if` mentioning {lit} in {fn} (renamed or removed?)')
            inner = [x for x in target.get('inner', [])]
            if target.get('hasInit'):
                inner.pop(0)
            if target.get('hasVar'):
                inner.pop(0)
            name = 'skel_' + mangle(q) + '__focus'
            self.cur_name = mangle(q) + '__focus'
            self.alias, self.boolvars, self.lambdas, self.try_stack = {}, {}, {}, []
            self.optvars = {}
            self.cur_ret_kind = None
            self.cur_return = None
            text = self.block(inner[1], '')
            self.protos.append(f'void {name}(void);')
            line = target.get('range', {}).get('begin', {}).get('line')
            self.out.append((name, f'/* skeleton of the `if (... {lit} ...)` branch of {q} ({self.spec.source}) */\nvoid {name}(void)\n' + '\n'.join(text) + '\n'))
            self.lines_of[name] = line
            self.stats['functions'] += 1
            roots.append(name)
        while self.queue:
            cid = self.queue.pop(0)
            if cid in self.done:
                continue
            self.lines_of[self.fnames[cid]] = self.lower_fn(cid)
        return roots

    def find_if(self, n, lit):
        if n is None:
            return None
        if n.get('kind') == 'IfStmt':
            inner = list(n.get('inner', []))
            if n.get('hasInit'):
                inner.pop(0)
            if n.get('hasVar'):
                inner.pop(0)
            if inner and self.mentions(inner[0], lit):
                return n
        for c in n.get('inner', []):
            r = self.find_if(c, lit)
            if r is not None:
                return r
        return None

    def mentions(self, e, lit):
        if e.get('kind') == 'StringLiteral' and e.get('value') == lit:
            return True
        return any(self.mentions(c, lit) for c in e.get('inner', []))

    def emit(self):
        L = ['/* generated by cxxskel from %s -- control-flow skeleton, do not edit */' % self.spec.source,
             '#include <stdint.h>', '_Bool nondet_bool(void); int nondet_int(void);', 'int __skel_exc;   /* 0 = none, else the number of the throw site (see meta) */',
             '_Bool __skel_nonempty[64];   /* per tagged container: is it non-empty (arbitrary, fixed per run: set by the harness) */',
             '_Bool __skel_ret;   /* success facet (true / has_value) of the last skeleton callee that returned bool or optional */', '']
        L += self.spec.prologue + ['']
        L += ['/* current tag of mutable locals (path-sensitive) */'] + self.dyn_decls + ['']
        L += self.protos + ['']
        for _, t in self.out:
            L.append(t)
        return '\n'.join(L) + '\n'

    def meta(self):
        unused = {k: sorted(set(getattr(self.spec, k)) - self.used[k]) for k in ('events', 'preds', 'throws')}
        unused['tags'] = sorted(set(self.spec.tags) - self.used['tags'])
        return {'unit': self.spec.unit, 'source': self.spec.source, 'level': 'E3 control-flow skeleton',
                'functions': {n: {'qname': n, 'line': self.lines_of.get(n), 'has_body': True, 'contract': False, 'loops': [],
                                  'loops_with_contract': [], 'maythrow': False, 'calls': []} for n, _ in self.out},
                'stats': self.stats, 'unused_spec_entries': unused, 'throw_sites': self.throw_sites,
                'dropped': ['ALL data other than the tracked facets: untracked conditions are nondeterministic booleans',
                            'parameters, results, untracked calls (library and other translation units)',
                            'loops are unrolled %s times (bounded)' % self.spec.options.get('loop_bound', '2'),
                            'exception handlers of a try block are merged; an exception is modelled only at calls named by @throws '
                            'and at throw expressions'],
                'models': []}


def lower(spec_path, out_c, out_meta=None):
    spec = SkelSpec(spec_path)
    s = Skel(spec)
    s.run()
    with open(out_c, 'w') as f:
        f.write(s.emit())
    m = s.meta()
    if out_meta:
        with open(out_meta, 'w') as f:
            json.dump(m, f, indent=1)
    return m


if __name__ == '__main__':
    try:
        m = lower(sys.argv[1], sys.argv[2], sys.argv[3] if len(sys.argv) > 3 else None)
        print(json.dumps(m['stats']), json.dumps(m['unused_spec_entries']))
    except LoweringError as e:
        print('cxxskel: LOWERING ERROR:', e, file=sys.stderr)
        sys.exit(2)
