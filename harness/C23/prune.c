/* C23 (transfer timeouts), E2: Node::prune_stale_uploads on the real code, active_uploads_ in the single-key view -- THE upload.
   With a positive transfer timeout, an upload that started at least `timeout` ago is ended exactly once, for its own (peer,
   chunk), as unsuccessful (note_upload_end releases the slot: groups slots.*); a younger upload is left alone; with timeout <= 0
   nothing is pruned. */
#include "uploads_prune.c"
#include "common.h"
#define NS 1000000000l
void h_prune(void)
{
  static Node nd; { Node any; nd = any; }
  Node *n = &nd;
  int64_t in_now;
  __CPROVER_assume(n->active_uploads_.n <= 1 && n->config_.upload_transfer_timeout >= -5 && n->config_.upload_transfer_timeout <= 100000);
  __CPROVER_assume(in_now >= 0 && in_now <= 4000000000000000000l && n->active_uploads_.e[0].second.started_at >= 0 && n->active_uploads_.e[0].second.started_at <= in_now);
  _Bool active = n->active_uploads_.n == 1;
  Node__ActiveUploadState st = n->active_uploads_.e[0].second;
  int64_t timeout = n->config_.upload_transfer_timeout;
  g_ended = 0;
  if (active) { n->active_uploads_.n = 1; Node__prune_stale_uploads(n, in_now); } else { n->active_uploads_.n = 0; Node__prune_stale_uploads(n, in_now); }
  _Bool stale = active && timeout > 0 && in_now - st.started_at >= timeout * NS;
  __CPROVER_assert(g_ended == (stale ? 1 : 0), "an upload is ended by the pruning pass exactly when the transfer timeout is positive and it started at least that long ago");
  if (stale) { CANARY_AT("an upload whose transfer timeout has passed"); }
  if (stale) __CPROVER_assert(g_peer0 == st.peer_id._[0] && g_chunk0 == st.chunk_id._[0] && !g_flag, "the timed-out upload is ended for its own (peer, chunk), as unsuccessful");
  CANARY_POINT();
}
