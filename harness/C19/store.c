/* C19 (StoreProof.cpp): leading-zero counter and STORE PoW validator */
#ifdef UNIT_V   /* the validator and solver only: independent of how the bit counter is named or structured */
#include "pow_store_v.c"
#else
#include "pow_store.c"
#endif
#include "clz.h"
#include "common.h"
#ifndef UNIT_V
void h_clz(void)
{
  uint8_t in_digest[32]; uint64_t in_n;
  __CPROVER_assume(in_n <= 32);
  uint64_t r = security__count_leading_zero_bits((span_u8){in_digest, in_n});
  __CPROVER_assert(r == spec_clz(in_digest, in_n), "StoreProof count_leading_zero_bits == clz");
  CANARY_POINT();
}
#endif
void h_store(void)
{
  security__StoreWorkInput in_w; uint64_t in_nonce; uint8_t in_difficulty;
  __CPROVER_assume(in_w.filename_hint.n <= 0x0000FFFFFFFFFFFFul);
  in_w.filename_hint.p = malloc(in_w.filename_hint.n + 1);
  __CPROVER_assume(in_w.filename_hint.p != 0);
  __g_sha_len = 0; __g_sha_seen = 0; __g_sha_finalized = 0; __g_sha_ctors = 0;
  _Bool ok = security__store_pow_valid(&in_w, in_nonce, in_difficulty);
  if (in_difficulty == 0) {
    __CPROVER_assert(ok, "difficulty 0 accepts");
  } else {
    uint64_t f = in_w.filename_hint.n;
    uint64_t l32 = f < 0xFFFFFFFFul ? f : 0xFFFFFFFFul;
    __CPROVER_assert(__g_sha_ctors == 1 && __g_sha_finalized == 1 && __g_sha_len == 32 + 8 + 4 + f + 8, "one hash over the whole encoding");
    uint64_t p = __g_sha_pos;
    if (p < 52 + f) {
      uint8_t want = p < 32 ? in_w.chunk_id._[p] : p < 40 ? BE64_BYTE(in_w.payload_size, p - 32)
                   : p < 44 ? (uint8_t)(l32 >> (8 * (3 - (p - 40)))) : p < 44 + f ? (uint8_t)in_w.filename_hint.p[p - 44]
                   : BE64_BYTE(in_nonce, p - 44 - f);
      __CPROVER_assert(__g_sha_seen && __g_sha_byte == want, "hashed byte equals the field encoding (chunk id, size, filename, nonce)");
    }
    uint8_t eff = in_difficulty > 24 ? 24 : in_difficulty;
    __CPROVER_assert(ok == (spec_clz(__g_sha_digest._, 32) >= eff), "accepted iff clz(digest) >= min(difficulty, 24)");
  }
  CANARY_POINT();
}

/* the solver: every nonce compute_store_pow returns is one the validator accepted (validator by contract, PRNG opaque) */
void h_solver(void)
{
  security__StoreWorkInput *in_w = malloc(sizeof(*in_w)); uint8_t in_difficulty; uint64_t in_max;
  __CPROVER_assume(in_w != 0 && in_w->filename_hint.n <= 0x0000FFFFFFFFFFFFul);
  in_w->filename_hint.p = malloc(in_w->filename_hint.n + 1);
  __CPROVER_assume(in_w->filename_hint.p != 0);
  __g_sha_len = 0; __g_sha_seen = 0; __g_sha_finalized = 0; __g_sha_ctors = 0; __g_spv_called = 0;
  opt_u64 r = security__compute_store_pow(in_w, in_difficulty, in_max);
  CANARY_POINT();
}
