/* C34 (candidate builders): on the tagged control-flow skeleton of build_transport_advertise_candidates and
   discover_control_advertise_candidates, result.candidates.push_back is reached only if private advertising is allowed or
   is_private_or_reserved_host returned false for the very host variable that was copied into the candidate. */
#include "advertise_flow.c"
#include "common.h"
void h_transport(void)
{
  g_allow_private = nondet_bool(); g_checked_host = 0; g_checked_public = 0; g_cand_host = 0; g_published = 0;
  skel_network__build_transport_advertise_candidates();
  CANARY_POINT();
}
void h_control(void)
{
  g_allow_private = nondet_bool(); g_checked_host = 0; g_checked_public = 0; g_cand_host = 0; g_published = 0;
  skel_network__discover_control_advertise_candidates();
  CANARY_POINT();
}
