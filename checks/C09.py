from vdriver import Group
META = {'level': 'proof'}
def groups(tier):
    return [Group('block.rfc8439', 'chacha20', 'C09/block.c', entry='h_block_plain', unwind=65,
                  backend=['cvc5', 'cadical'], kind='constant-unwind', bound='10 double rounds, 16-word loops, 64 output bytes',
                  clause='chacha20_block(key, nonce, counter) == RFC 8439 block function for all 2^384 inputs, and the verbatim '
                         'ensures clause of its contract holds under the verbatim requires clause'),
            Group('block.frame', 'chacha20', 'C09/block.c', entry='h_block_frame', enforce='crypto__chacha20_block', unwind=65,
                  backend=['sat'], kind='constant-unwind', bound='10 double rounds, 16-word loops',
                  clause='chacha20_block under --enforce-contract: writes only *buffer, memory safe, for all inputs'),
            Group('apply.stream', 'chacha20', 'C09/apply.c', entry='h_apply', enforce='crypto__ChaCha20__apply',
                  replace=['crypto__chacha20_block', 'vec_u8_resize'], loop_contracts=True, unwind=65, backend=['cadical', 'sat'],
                  kind='unbounded', timeout=900,
                  clause='apply: for every length >= 1, output[g] = input[g] ^ block(counter0 + g/64 mod 2^32)[g mod 64], |output| = |input|'),
            Group('apply.empty', 'chacha20', 'C09/apply.c', entry='h_apply_empty', unwind=65, kind='constant-unwind', bound='input length 0',
                  clause='apply on empty input yields empty output'),
            Group('apply.involution', None, 'C09/apply.c', entry='h_involution_lemma', kind='unbounded',
                  clause='lemma: (x ^ k) ^ k == x, hence apply(apply(x)) == x given apply.stream')]
