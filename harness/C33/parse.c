/* C33: parse_stun_response, every datagram of every length <= 65535 (loop contract): memory safety + RFC 5389 decoding */
#include "stun.c"
#include "common.h"
void harness(void)
{
  uint8_t *in_data; uint64_t in_length; arr_u8_12 *in_txid;
  opt_network__StunParserResult r = network__parse_stun_response(in_data, in_length, in_txid);
  CANARY_POINT();
}
