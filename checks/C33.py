from vdriver import Group
META = {'level': 'proof'}
def groups(tier):
    return [Group('parse.contract', 'stun', 'C33/parse.c', enforce='network__parse_stun_response', loop_contracts=True,
                  replace=['cxx_inet_ntop', 'str_from_cstr'],
                  unwind=17, unwind_by={'cxx_equal_u8': 13, 'cxx_memcpy': 17, 'network__parse_stun_response': 13},
                  backend=['sat'], timeout=900, kind='unbounded',
                  clause='for every datagram (length <= 65535): no out-of-bounds read; a result implies Binding Success, matching '
                         'transaction id, a well-formed (XOR-)MAPPED-ADDRESS attribute inside the datagram, RFC 5389 decoding')]


def replay(group, trace):
    """native search: structured random datagrams through the REAL parser (exact-size heap buffer, AddressSanitizer) against
    an RFC 5389 reference decoder; the unbounded counterexample itself has no concrete datagram bytes (fresh object)"""
    import sys, os, re
    root = os.path.dirname(os.path.dirname(os.path.abspath(__file__)))
    sys.path.insert(0, os.path.join(root, 'replay'))
    import replaylib as R
    exe = R.build('C33.cpp', [], extra=['-fsanitize=address', '-g'])
    seed = int(os.environ.get('VERIF_SEED', '0') or 0)
    rc, out = R.run(exe, ['search', seed, 300000], timeout=120)
    lines = out.strip().splitlines()
    last_input = [l for l in lines if l.startswith('INPUT')][-1:] or ['']
    if rc == 0:
        return False, 'native search over 300000 structured datagrams found no failing input'
    asan = 'AddressSanitizer' in out
    why = ('AddressSanitizer: ' + re.sub(r'\s+', ' ', out[out.index('AddressSanitizer'):])[:300]) if asan else lines[-1]
    return True, f'{last_input[0]} -> exit {rc}: {why}'
