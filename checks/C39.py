from vdriver import Group
META = {'level': 'other'}
def groups(tier):
    K = dict(unit='keymgr', harness='C39/rotate.c', replace=['crypto__HmacSha256__compute', 'peer_id_to_string'], unwind=10, backend=['sat', 'cadical'])
    return [Group('rotation.shared_inputs', entry='h_rotate_agree', kind='constant-unwind', bound='8-byte encoders', replay='rotate', defines=['GHOST_NO_POINTERS'],
                  clause='the rotated key is a function of state both ends share (shared secret, rotation counter) only -- necessary for the two ends to agree', **K),
            Group('rotation.step', entry='h_rotate_step', kind='unbounded',
                  clause='rotate_if_needed rotates exactly when the interval has elapsed, bumps the counter and derives from the shared secret', **K)]


def replay(group, trace):
    """two REAL KeyManagers with the same secret and material rotate on their own ticks"""
    import sys, os
    if group.replay != 'rotate':
        return None, 'no native replay for this group'
    root = os.path.dirname(os.path.dirname(os.path.abspath(__file__)))
    sys.path.insert(0, os.path.join(root, 'replay'))
    import replaylib as R
    exe = R.build_full('C39.cpp', with_daemon=False)
    rc, out = R.run(exe, [], timeout=60)
    last = [l for l in out.strip().splitlines() if l.strip()][-1:] or ['']
    return rc == 1, last[0][:400]
