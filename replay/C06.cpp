// native replay for C06: the REAL KademliaTable on short provider histories (no sleeping: a TTL of 0 s expires at once).
//   sweep    : A announces for 1 h, B announces for 0 s, sweep -> A must still be listed (its own deadline is far away)
//   add      : A, B announce; A re-announces -> A listed once, B kept
//   find     : A announces for 1 h, B for 0 s -> lookup returns exactly A
//   withdraw : A, B announce; A withdrawn -> exactly B
// exit 1 = the property is violated on the real code.
#include "ephemeralnet/dht/KademliaTable.hpp"
#include <cstdio>
#include <string>
using namespace ephemeralnet;
using namespace std::chrono;
static PeerContact mk(std::uint8_t b) { PeerContact c{}; c.id[0] = b; c.address = "10.0.0." + std::to_string(b) + ":4000"; return c; }
static int count(const std::vector<PeerContact>& v, std::uint8_t b) { int n = 0; for (const auto& c : v) if (c.id[0] == b) n++; return n; }
int main(int argc, char** argv) {
    const std::string scn = argc > 1 ? argv[1] : "sweep";
    PeerId self{}; self[31] = 0x77;
    KademliaTable t(self);
    ChunkId chunk{}; chunk[0] = 0x42;
    if (scn == "sweep" || scn == "add") {
        t.add_contact(chunk, mk(1), seconds(3600));
        t.add_contact(chunk, mk(2), seconds(0));
        t.sweep_expired();
        const auto r = t.find_providers(chunk);
        if (count(r, 1) != 1) { std::printf("REPRODUCED: provider A (announced for 3600 s) is gone after a sweep because provider B's 0 s announcement of the same chunk expired\n"); return 1; }
        if (count(r, 2) != 0) { std::printf("REPRODUCED: the expired provider B is still listed after a sweep\n"); return 1; }
    }
    if (scn == "add") {
        KademliaTable t(self);
        t.add_contact(chunk, mk(1), seconds(600));
        t.add_contact(chunk, mk(2), seconds(600));
        t.add_contact(chunk, mk(1), seconds(1200));
        const auto r = t.find_providers(chunk);
        if (count(r, 1) != 1 || count(r, 2) != 1 || r.size() != 2) { std::printf("REPRODUCED: after A, B, A announcements the lookup lists A %d times, B %d times (%zu providers)\n", count(r, 1), count(r, 2), r.size()); return 1; }
        for (const auto& c : r) if (c.id[0] == 1 && duration<double>(c.expires_at - steady_clock::now()).count() < 1000.0) { std::printf("REPRODUCED: A's entry does not carry the deadline of its most recent announcement\n"); return 1; }
    } else if (scn == "find") {
        t.add_contact(chunk, mk(1), seconds(3600));
        t.add_contact(chunk, mk(2), seconds(0));
        const auto r = t.find_providers(chunk);
        if (count(r, 1) != 1 || count(r, 2) != 0 || r.size() != 1) { std::printf("REPRODUCED: lookup with A live and B expired lists A %d times, B %d times (%zu providers)\n", count(r, 1), count(r, 2), r.size()); return 1; }
    } else if (scn == "withdraw") {
        t.add_contact(chunk, mk(1), seconds(600));
        t.add_contact(chunk, mk(2), seconds(600));
        t.withdraw_contact(chunk, mk(1).id);
        const auto r = t.find_providers(chunk);
        if (count(r, 1) != 0 || count(r, 2) != 1) { std::printf("REPRODUCED: after withdrawing A the lookup lists A %d times, B %d times\n", count(r, 1), count(r, 2)); return 1; }
        // a withdrawal must not make the next sweep drop live providers: A 1 h, B 0 s, C 1 h; withdraw C; sweep -> exactly A
        KademliaTable t2(self);
        t2.add_contact(chunk, mk(1), seconds(3600));
        t2.add_contact(chunk, mk(2), seconds(0));
        t2.add_contact(chunk, mk(3), seconds(3600));
        t2.withdraw_contact(chunk, mk(3).id);
        t2.sweep_expired();
        const auto r2 = t2.find_providers(chunk);
        if (count(r2, 1) != 1 || r2.size() != 1) { std::printf("REPRODUCED: A (1 h), B (0 s), C (1 h) announced, C withdrawn, sweep: the lookup returns %zu providers, A %d times\n", r2.size(), count(r2, 1)); return 1; }
    } else if (scn != "sweep" && scn != "add") return 2;
    std::printf("provider history '%s' as required\n", scn.c_str());
    return 0;
}
