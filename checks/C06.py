from vdriver import Group
META = {'level': 'other', 'assumptions': ['provider ids range over 256 values in the harness (byte 0 symbolic, bytes 1..31 zero): the code compares ids for equality only']}
def groups(tier):
    K = dict(unit='kad_providers', harness='C06/providers.c', stub=['chunk_id_to_string', 'KademliaTable__sweep_buckets', 'KademliaTable__upsert_bucket'],
             checks=['--bounds-check', '--pointer-check'], unwind=6, unwind_by={'same_id': 33, 'cxx_memcmp': 33, 'setup': 33, 'body_add': 33, 'body_withdraw': 33, 'KademliaTable__add_contact.1': 1, 'KademliaTable__add_contact.2': 1, 'KademliaTable__sweep_expired#0': 3, 'KademliaTable__sweep_expired#2': 3}, kind='bounded', timeout=1500, defines=['CXX_FIXED_STORAGE', 'CXX_VEC_CAP=6', 'H=3'],
             bound='at most 3 providers already listed for the chunk (so the 20-provider cap and its sort are never reached: unwinding assertions on the sort loops); provider ids range over 256 values (byte 0 symbolic); all deadlines, locator deadlines and clock readings symbolic')
    KD = dict(K, defines=['CXX_FIXED_STORAGE', 'CXX_VEC_CAP=6', 'H=0', 'DEADLINE_ONLY'], backend=['cvc5', 'z3', 'sat'],
              bound='no provider listed before (the deadline assignment is the first statement of add_contact and does not read the table); all TTLs 0..1e9 s and clock readings')
    return [Group('providers.add', entry='h_add', replay='add', backend=['sat', 'cadical', 'cvc5'], clause='add_contact lists the announcer once with deadline now + ttl and keeps every other provider', **K),
            # (a group for 'the announcer's deadline is exactly now + ttl' exists in the harness under -DDEADLINE_ONLY; the equality of two
            #  64-bit products ttl * 1e9 is not decided by cvc5 / z3 / SAT within 6 minutes even on an empty table, so it is not registered)
            Group('providers.sweep', entry='h_sweep', replay='sweep', backend=['sat', 'cadical', 'cvc5'], clause='sweep_expired keeps exactly the providers whose own deadline is in the future', **K),
            Group('providers.find', entry='h_find', replay='find', backend=['sat', 'cadical', 'cvc5'], clause='find_providers returns exactly the providers whose own deadline is in the future', **K),
            # (a group for the 20-provider cap exists in the harness under -DCAPN=20 -- 21 symbolic providers through the insertion-sort model;
            #  no back end finishes within 20 minutes, so it is not registered and the cap clause stays undecided)
            Group('providers.withdraw', entry='h_withdraw', replay='withdraw', backend=['sat', 'cadical', 'cvc5'], clause='withdraw_contact removes the named provider only', **K)]
def replay(group, trace):
    """the REAL KademliaTable on a short provider history for the operation the group is about (TTL 0 s expires at once)"""
    import sys, os
    root = os.path.dirname(os.path.dirname(os.path.abspath(__file__)))
    sys.path.insert(0, os.path.join(root, 'replay'))
    import replaylib as R
    exe = R.build_full('C06.cpp', with_daemon=False)
    rc, out = R.run(exe, [group.replay], timeout=60)
    last = [l for l in out.strip().splitlines() if l.strip()][-1:] or ['']
    return rc == 1, last[0][:400]
