/* C08: Sha256::transform == FIPS 180-4 6.2.2 compression, for every state and block; contract (frame, ghost log). */
#include "sha256.c"
#include "fips180.h"
#ifdef CANARY
#define CANARY_POINT() __CPROVER_assert(0, "canary: end of harness reachable")
#else
#define CANARY_POINT()
#endif
void harness(void)
{
  crypto__Sha256 s;        /* every field nondeterministic */
  uint8_t in_block[64];
  __CPROVER_assume(__g_j < 64);
  __g_stream_mode = 0;
  __g_calls = 0;
  crypto__Sha256 old = s;
  crypto__Sha256__transform(&s, in_block);
  uint32_t H[8];
  for (int i = 0; i < 8; i++) H[i] = old.state_._[i];
  fips_compress(H, in_block);
  for (int i = 0; i < 8; i++) __CPROVER_assert(s.state_._[i] == H[i], "transform equals FIPS 180-4 compression");
  /* constants */
  for (int i = 0; i < 64; i++) __CPROVER_assert(crypto__kRoundConstants._[i] == FIPS_K[i], "round constant equals FIPS K[i]");
  CANARY_POINT();
}
