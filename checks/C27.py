from vdriver import Group
META = {'level': 'other'}
def groups(tier):
    return [Group('token.compare', 'ctrl_token', 'C27/token.c', entry='h_cte', enforce='daemon__constant_time_equal', loop_contracts=True,
                  backend=['sat', 'cadical'], kind='unbounded', timeout=150,
                  clause='constant_time_equal answers true exactly for equal strings (every length; loop invariant with ghost position and witness)'),
            Group('token.compare.bounded', 'ctrl_token_b', 'C27/token_b.c', entry='h_cte_bounded', unwind=34, kind='bounded', backend=['sat', 'cadical'],
                  bound='strings of at most 24 bytes', defines=['CXX_VEC_CAP=40', 'CXX_FIXED_STORAGE'], timeout=600,
                  clause='constant_time_equal == string equality for all strings up to 24 bytes, independent of its loop structure'),
            Group('handlers.gate', 'ctrl_auth', 'C27/gate.c', entry='h_gate', unwind=3, kind='skeleton', checks=[],
                  bound='control-flow skeleton (E3); loops unrolled twice', skeleton=True, replay='gate',
                  clause='with a configured token, STORE / FETCH (streamed or to a daemon path) / STOP perform no effect before the exact token was presented')]


def replay(group, trace):
    """a REAL Node + ControlServer with a configured token; STOP / FETCH OUT / FETCH STREAM / STORE sent without the token"""
    import sys, os, random
    if group.replay != 'gate':
        return None, 'no native replay for this group'
    root = os.path.dirname(os.path.dirname(os.path.abspath(__file__)))
    sys.path.insert(0, os.path.join(root, 'replay'))
    import replaylib as R
    exe = R.build_full('C27.cpp')
    out_all, hit = [], False
    i = 0
    for mode in ('none', 'wrong'):
        for sc in ['stop', 'fetch_out', 'fetch_stream', 'store'] + (['raw'] if mode == 'none' else []):
            i += 1
            port = 20000 + (os.getpid() * 7 + i * 131 + random.randint(0, 5000)) % 20000
            rc, out = R.run(exe, [sc, port, mode], timeout=60)
            last = [l for l in out.strip().splitlines() if l.strip()][-1:] or ['']
            if rc != 0:
                out_all.append(f'{sc}/token={mode}: exit {rc}: {last[0]}')
            hit = hit or rc == 1
    if not out_all:
        out_all.append('STOP, FETCH OUT, FETCH STREAM and STORE without the token and with a wrong token were all refused without effect')
    return hit, ' | '.join(out_all)
