from vdriver import Group
import itertools
META = {'level': 'other'}
NAMES = ['announce', 'request', 'chunk', 'acknowledge', 'transport_handshake', 'handshake_ack']
def groups(tier):
    L = 2 if tier == 'quick' else 4
    G = []
    for i in range(6):
        if i == 0:
            combos = list(itertools.product(range(L + 1), repeat=3))
        elif i == 2:
            combos = [(a, 0, 0) for a in range(L + 2)]
        else:
            combos = [(0, 0, 0)]
        for (a, b, c) in combos:
            suffix = '' if len(combos) == 1 else f'.len{a}_{b}_{c}'
            G.append(Group(f'roundtrip.{NAMES[i]}{suffix}', 'message', 'C15/roundtrip.c', entry='h_roundtrip',
                           defines=[f'TYPE={i}', f'MAXLEN={L + 1}', f'LEN_A={a}', f'LEN_B={b}', f'LEN_C={c}'],
                           unwind=36 + L, checks=[], kind='bounded',
                           bound=f'string / byte-list lengths enumerated concretely up to {L} (contents symbolic); versions 0..255, ids, '
                                 f'ttl < 2^32, nonces, flags full-domain',
                           timeout=600, clause=f'decode(encode(m)) == m[version := clamp(version)] for {NAMES[i]} messages'))
    return G


def replay(group, trace):
    import sys, os, re
    sys.path.insert(0, os.path.join(os.path.dirname(os.path.dirname(os.path.abspath(__file__))), 'replay'))
    import replaylib as R
    a = (trace or {}).get('assignments', {})
    d = dict(x.split('=') for x in group.defines)
    t = int(d['TYPE'])
    exe = R.build('C15.cpp', ['src/protocol/Message.cpp', 'src/crypto/HmacSha256.cpp', 'src/crypto/Sha256.cpp'])
    ttl = R.num(a.get(f'in_m.payload._{t}.ttl'), 0) if t in (0, 2) else 0
    nonce = R.num(a.get(f'in_m.payload._{t}.work_nonce'), 0) if t in (0, 4) else 0
    acc = R.num(a.get(f'in_m.payload._{t}.accepted'), 0) if t in (3, 5) else 0
    args = [t, R.num(a.get('in_m.version'), 4), ttl, nonce, d['LEN_A'], d['LEN_B'], d['LEN_C'], acc]
    rc, out = R.run(exe, args)
    return rc == 1, f'args={args} -> exit {rc}: {out.strip()}'
