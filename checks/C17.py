from vdriver import Group
META = {'level': 'other'}
def groups(tier):
    return [Group('encode.refuses_unrepresentable', 'manifest_limits', 'C17/limits.c', entry='h_limits', unwind=66, kind='skeleton', checks=[], skeleton=True,
                  replay='limits', bound='control-flow skeleton (E3) with value tags; loops unrolled twice', timeout=600, backend=['sat', 'cadical'],
                  clause='encode_manifest writes a count / length field only for a list or string whose size it compared with the field capacity and '
                         'found to fit; anything larger ends in the length_error throw instead of being truncated')]


def replay(group, trace):
    """the REAL encode_manifest on eleven manifests with one field beyond the format's capacity"""
    import sys, os
    root = os.path.dirname(os.path.dirname(os.path.abspath(__file__)))
    sys.path.insert(0, os.path.join(root, 'replay'))
    import replaylib as R
    exe = R.build_full('C17.cpp', with_daemon=False)
    rc, out = R.run(exe, [], timeout=120)
    lines = [l for l in out.strip().splitlines() if l.startswith('REPRODUCED')] or [l for l in out.strip().splitlines() if l.strip()][-1:]
    return rc == 1, ' | '.join(lines)[:600]
