/* C24 (back-off arithmetic): schedule_next_fetch_attempt against its function contract -- the verbatim requires / ensures clause
   text of contracts/backoff.spec, emitted as macros by the lowering -- for every configuration (bounded only so that seconds fit
   into int64 nanoseconds), clock reading and, per group, attempt count.  The contract is checked by assume-requires / call /
   assert-ensures on static objects: goto-instrument's dfcc instrumentation of the same obligation is not decided by any back end
   within 5 minutes, the plain form by cvc5 in under a second.  The frame (only next_attempt changes) is asserted explicitly. */
#include "backoff.c"
#include "common.h"
void h_backoff(void)
{
  static Node nd; static Node__PendingFetchState st; { Node a; nd = a; Node__PendingFetchState b; st = b; }
  Node *self = &nd; Node__PendingFetchState *state = &st; _Bool success;
  __g_clock_fixed = 1;
  __CPROVER_assume(CONTRACT_REQUIRES_Node__schedule_next_fetch_attempt);
  Node__PendingFetchState in_before = st; Node in_cfg = nd;
  Node__schedule_next_fetch_attempt(self, state, success);
  __CPROVER_assert(st.attempts == in_before.attempts, "frame: the attempt counter is not changed by the scheduling step");
  st.attempts = in_before.attempts;
  __CPROVER_assert(CONTRACT_ENSURES_Node__schedule_next_fetch_attempt, "contract ensures of schedule_next_fetch_attempt (verbatim clause text): delay = initial back-off * 2^min(attempts-1, 8) capped at the maximum; exhausted => never; success => success interval");
  CANARY_POINT();
}
