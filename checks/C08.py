from vdriver import Group
META = {'level': 'other'}
T = 'crypto__Sha256__transform'
def groups(tier):
    G = []
    G.append(Group('transform.fips', 'sha256', 'C08/transform.c', enforce=T, unwind=65,
                   backend=['cvc5'], kind='constant-unwind', bound='loops of 16/48/64 rounds fully unwound',
                   clause='transform(state, block) == FIPS 180-4 compression for all 2^768 inputs; frame: only state_ written'))
    G.append(Group('update.stream', 'sha256', 'C08/update.c', enforce='crypto__Sha256__update', replace=[T],
                   loop_contracts=True, unwind=65, backend=['sat'], kind='unbounded',
                   clause='update: for every data length, bytes absorbed in order exactly once; transform called on full blocks'))
    G.append(Group('finalize.padding', 'sha256', 'C08/finalize.c', enforce='crypto__Sha256__finalize', replace=[T],
                   unwind=65, backend=['sat'], kind='constant-unwind', bound='fill/length loops <= 64 iterations',
                   clause='finalize: blocks handed to transform are the FIPS padding; digest is big-endian state'))
    return G
