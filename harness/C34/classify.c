/* C34: classification of auto-discovered hosts.  IPv4 classes for all 2^32 addresses; every canonical dotted-quad text
   (what inet_ntop prints) is parsed back to its octets and classified; the IPv4-mapped IPv6 text form of a non-routable
   IPv4 address is classified as non-routable too. */
#include "advertise.c"
#include "common.h"
/* specification printer: decimal text of an octet without leading zeros (inet_ntop's form), returns the length */
static int put_octet(char *out, unsigned v)
{
  int n = 0;
  if (v >= 100) out[n++] = (char)('0' + v / 100);
  if (v >= 10) out[n++] = (char)('0' + (v / 10) % 10);
  out[n++] = (char)('0' + v % 10);
  return n;
}
static int put_quad(char *out, const uint8_t *o)
{
  int n = 0;
  for (int i = 0; i < 4; ++i) { n += put_octet(out + n, o[i]); if (i < 3) out[n++] = '.'; }
  return n;
}
void h_ipv4_classes(void)
{
  arr_u8_4 in_ip;
  _Bool r = network__is_private_or_reserved_ipv4(&in_ip);
  CANARY_POINT();
}
void h_parse_roundtrip(void)
{
  arr_u8_4 in_ip, out = {{0}};
  char buf[16];
  int n = put_quad(buf, in_ip._);
  str h = {buf, (uint64_t)n, (uint64_t)n};
  _Bool ok = network__parse_ipv4(&h, &out);
  __CPROVER_assert(ok, "the canonical dotted-quad text of every address parses");
  __CPROVER_assert(out._[0] == in_ip._[0] && out._[1] == in_ip._[1] && out._[2] == in_ip._[2] && out._[3] == in_ip._[3], "to the same four octets");
  CANARY_POINT();
}
void h_host_ipv4(void)
{
  arr_u8_4 in_ip;
  char buf[16];
  int n = put_quad(buf, in_ip._);
  str h = {buf, (uint64_t)n, (uint64_t)n};
  __exc = 0;
  _Bool r = network__is_private_or_reserved_host(&h);
  __CPROVER_assert(__exc == 0, "no exception");
  __CPROVER_assert(r == SPEC_NONROUTABLE4(in_ip._[0], in_ip._[1], in_ip._[2], in_ip._[3]), "a dotted-quad host is withheld exactly when its address is non-routable");
  CANARY_POINT();
}
void h_host_mapped(void)
{
  arr_u8_4 in_ip; _Bool in_upper;
  char buf[24] = {':', ':', 'f', 'f', 'f', 'f', ':'};
  if (in_upper) { buf[2] = buf[3] = buf[4] = buf[5] = 'F'; }
  int n = 7 + put_quad(buf + 7, in_ip._);
  str h = {buf, (uint64_t)n, (uint64_t)n};
  __exc = 0;
  _Bool r = network__is_private_or_reserved_host(&h);
  __CPROVER_assert(__exc == 0, "no exception");
  if (SPEC_NONROUTABLE4(in_ip._[0], in_ip._[1], in_ip._[2], in_ip._[3]))
    __CPROVER_assert(r, "the IPv4-mapped IPv6 form (::ffff:a.b.c.d) of a non-routable IPv4 address is withheld");
  CANARY_POINT();
}
void h_host_names(void)
{
  char *lits[4] = {"localhost", "LOCALHOST", "0.0.0.0", "::1"};
  unsigned in_which; __CPROVER_assume(in_which < 4);
  str h = {lits[in_which], cxx_strlen(lits[in_which]), 0};
  __exc = 0;
  __CPROVER_assert(network__is_private_or_reserved_host(&h) && __exc == 0, "localhost, 0.0.0.0 and ::1 are withheld");
  str e = {0};
  __CPROVER_assert(network__is_private_or_reserved_host(&e), "the empty host is withheld");
  CANARY_POINT();
}
