/* C11 / C03 (E2, real code with container models, shard_table_ in the single-key view): from ANY prior state of the chunk's entry
   (absent, live or expired, arbitrary contents and sharing parameters), publish_shards makes the entry hold EXACTLY the share set,
   threshold and share count it was given, with deadline now + ttl; shard_record afterwards returns exactly that record at every
   instant before the deadline and nothing at or after it. */
#include "kad_shards.c"
#include "common.h"
#define NS 1000000000l
void h_publish_lookup(void)
{
  KademliaTable *in_tab = malloc(sizeof(KademliaTable)); arr_u8_32 in_id; int64_t in_ttl; uint8_t in_t, in_n;
  protocol__KeyShard *in_sh = malloc(sizeof(protocol__KeyShard) * 4); uint64_t in_len;
  __CPROVER_assume(in_tab && in_sh && in_len <= 4 && in_tab->shard_table_.n <= 1);
  __CPROVER_assume(in_ttl >= 0 && in_ttl <= 1000000000l);
  int64_t t_pub; __CPROVER_assume(t_pub >= 0 && t_pub <= 4000000000000000000l);
  __g_clock_steady = t_pub; __g_clock_fixed = 1;
  KademliaTable__publish_shards(in_tab, &in_id, (vec_protocol__KeyShard){in_sh, in_len, in_len}, in_t, in_n, in_ttl);
  int64_t deadline = t_pub + in_ttl * NS;
  __CPROVER_assert(in_tab->shard_table_.n == 1, "publish_shards leaves one entry for the chunk");
  __CPROVER_assert(in_tab->shard_table_.e[0].second.shards.p == in_sh && in_tab->shard_table_.e[0].second.shards.n == in_len,
                   "C11: the entry holds exactly the share set that was published, whatever entry existed before");
  __CPROVER_assert(in_tab->shard_table_.e[0].second.threshold == in_t && in_tab->shard_table_.e[0].second.total_shares == in_n,
                   "C11: with the threshold and share count that were published");
  __CPROVER_assert(in_tab->shard_table_.e[0].second.expires_at == deadline, "C03: the shares live for exactly the TTL given, whatever entry existed before (never an older, longer deadline)");
  int64_t t_get; __CPROVER_assume(t_get >= t_pub && t_get <= 4600000000000000000l);
  __g_clock_steady = t_get;
  opt_KademliaTable__KeyShardRecord r = KademliaTable__shard_record(in_tab, &in_id);
  __CPROVER_assert(r.has == (t_get < deadline), "C03: the shares are served at every instant before the deadline and at none at or after it");
  if (r.has) { CANARY_AT("a lookup before the deadline"); }
  if (r.has) __CPROVER_assert(r.v.shards.p == in_sh && r.v.shards.n == in_len && r.v.threshold == in_t && r.v.total_shares == in_n, "C11: the lookup returns exactly the published share set");
  CANARY_POINT();
}
