from vdriver import Group
META = {'level': 'proof'}
def groups(tier):
    G = [Group('sanitize_config', 'ttl', 'C02/sanitize.c', entry='h_sanitize_config', enforce='sanitize_config',
               clause='for every Config: 1s<=min<=max<=24h, default inside, rotation in [5s,1h], PoW<=24'),
         Group('clamp_chunk_ttl', 'ttl', 'C02/sanitize.c', entry='h_clamp', enforce='clamp_chunk_ttl',
               clause='for every requested TTL and sanitised window the effective TTL is inside the window'),
         Group('enforce_manifest_ttl', 'ttl', 'C02/sanitize.c', entry='h_enforce', enforce='enforce_manifest_ttl',
               clause='manifest TTL below min rejected, above max capped'),
         Group('compose', 'ttl', 'C02/sanitize.c', entry='h_compose', replace=['sanitize_config', 'clamp_chunk_ttl'],
               clause='store path: clamp over the sanitised config (callee contracts only)')]
    return G
