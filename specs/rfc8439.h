/* Independent reference for the ChaCha20 block function written from RFC 8439 sections 2.1-2.3. */
#ifndef RFC8439_H
#define RFC8439_H
#include <stdint.h>
#define R_ROTL(v, n) ((uint32_t)(((v) << (n)) | ((v) >> (32 - (n)))))
#define R_QR(a, b, c, d) \
  a += b; d ^= a; d = R_ROTL(d, 16); c += d; b ^= c; b = R_ROTL(b, 12); \
  a += b; d ^= a; d = R_ROTL(d, 8);  c += d; b ^= c; b = R_ROTL(b, 7);
static inline void rfc8439_block(const uint8_t key[32], const uint8_t nonce[12], uint32_t counter, uint8_t out[64])
{
  uint32_t s[16], w[16];
  s[0] = 0x61707865; s[1] = 0x3320646e; s[2] = 0x79622d32; s[3] = 0x6b206574;
  for (int i = 0; i < 8; i++)
    s[4 + i] = (uint32_t)key[4 * i] | ((uint32_t)key[4 * i + 1] << 8) | ((uint32_t)key[4 * i + 2] << 16) | ((uint32_t)key[4 * i + 3] << 24);
  s[12] = counter;
  for (int i = 0; i < 3; i++)
    s[13 + i] = (uint32_t)nonce[4 * i] | ((uint32_t)nonce[4 * i + 1] << 8) | ((uint32_t)nonce[4 * i + 2] << 16) | ((uint32_t)nonce[4 * i + 3] << 24);
  for (int i = 0; i < 16; i++) w[i] = s[i];
  for (int r = 0; r < 10; r++) {
    R_QR(w[0], w[4], w[8], w[12]) R_QR(w[1], w[5], w[9], w[13]) R_QR(w[2], w[6], w[10], w[14]) R_QR(w[3], w[7], w[11], w[15])
    R_QR(w[0], w[5], w[10], w[15]) R_QR(w[1], w[6], w[11], w[12]) R_QR(w[2], w[7], w[8], w[13]) R_QR(w[3], w[4], w[9], w[14])
  }
  for (int i = 0; i < 16; i++) {
    uint32_t v = w[i] + s[i];
    out[4 * i] = (uint8_t)v; out[4 * i + 1] = (uint8_t)(v >> 8); out[4 * i + 2] = (uint8_t)(v >> 16); out[4 * i + 3] = (uint8_t)(v >> 24);
  }
}
#endif
