#!/bin/bash
# mut.sh <PROP> <repo-relative-file> <sed-expression> [check args...] : quick mutation probe on a scratch worktree (never touches /repo)
P=$1; F=$2; X=$3; shift 3
N=mut-$P-$$
WT=/tmp/sw/$N; B=/tmp/sb/$N
mkdir -p /tmp/sw /tmp/sb /tmp/p; git -C /repo worktree prune
git -C /repo worktree add --detach "$WT" HEAD >/dev/null 2>&1 || { echo "worktree failed"; exit 2; }
sed -i -E "$X" "$WT/$F"
( cd "$WT" && git diff --stat | tail -1; git diff | grep '^[+-]' | grep -v '^+++\|^---' | head -6 )
if ( cd "$WT" && git diff --quiet ); then echo "sed changed nothing"; git -C /repo worktree remove --force "$WT"; exit 2; fi
cd /verif && VERIF_REPO=$WT VERIF_BUILD=$B VERIF_OUT=$B timeout ${MUT_TIMEOUT:-900} ./check "$P" "$@" > /tmp/p/$N.log 2>&1; rc=$?
git -C /repo worktree remove --force "$WT"; rm -rf "$WT" "$B"
echo "mutant -> exit $rc"
grep -E "VIOLATION|UNDECIDED|KNOWN|failed obligation" /tmp/p/$N.log | cut -c1-220 | head -8
exit $rc
