/* C02 / C11 (store path): on the control-flow skeleton of Node::store_chunk with value tags: the chunk record, the manifest
   expiry, the shard record and the self-announcement all use THE value returned by clamp_chunk_ttl(.., config.min_manifest_ttl,
   config.max_manifest_ttl) (which the C02 leaf contracts place inside the window); the stored bytes are the output of
   encrypt_with_key under the generated key, and that same key is what Shamir::split shares out. */
#include "node_store.c"
#include "common.h"
void h_store_path(void)
{
  g_clamped_to_window = 0; g_records = 0; g_expiries = 0; g_lifetimes = 0; g_sealed_with_key = 0;
  skel_Node__store_chunk();
  __CPROVER_assert(g_records == 1 && g_expiries == 1 && g_lifetimes == 2, "a store creates exactly one chunk record, one manifest expiry, one shard record and one self-announcement");
  CANARY_POINT();
}
