/* libmodel: C value models of the std entities the lowering maps to.  TRUSTED (listed in evidence). */
#ifndef CXXMODEL_H
#define CXXMODEL_H
#include <stdint.h>
#include <stddef.h>

/* ghost exception state: 0 = none, otherwise the kind thrown (see EXC in cxx2c.py) */
int __exc;
#define EXC_invalid_argument 1
#define EXC_runtime_error 2
#define EXC_length_error 3
#define EXC_out_of_range 4
#define EXC_logic_error 5
#define EXC_bad_optional_access 6
#define EXC_system_error 7
#define EXC_bad_alloc 8
#define EXC_filesystem_error 9

#ifndef CXX_NATIVE
#define CXX_ASSERT(c, msg) __CPROVER_assert(c, msg)
#else
#include <assert.h>
#include <stdlib.h>
#include <string.h>
#define CXX_ASSERT(c, msg) assert((c) && msg)
#endif

/* library precondition helper: value v must be <= bound (UB in the real library otherwise) */
static inline uint64_t cxx_precond_le(uint64_t v, uint64_t bound)
{
  CXX_ASSERT(v <= bound, "library precondition: offset/count within range");
  return v;
}

static inline void *cxx_memcpy(void *dst, const void *src, uint64_t n)
{
  uint8_t *d = (uint8_t *)dst;
  const uint8_t *s = (const uint8_t *)src;
  for (uint64_t __k = 0; __k < n; ++__k) d[__k] = s[__k];
  return dst;
}
static inline void *cxx_memmove(void *dst, const void *src, uint64_t n)
{
  uint8_t *d = (uint8_t *)dst;
  const uint8_t *s = (const uint8_t *)src;
  if (d <= s) { for (uint64_t __k = 0; __k < n; ++__k) d[__k] = s[__k]; }
  else { for (uint64_t __k = n; __k > 0; --__k) d[__k - 1] = s[__k - 1]; }
  return dst;
}
static inline void *cxx_memset(void *dst, int c, uint64_t n)
{
  uint8_t *d = (uint8_t *)dst;
  for (uint64_t __k = 0; __k < n; ++__k) d[__k] = (uint8_t)c;
  return dst;
}
static inline int cxx_memcmp(const void *a, const void *b, uint64_t n)
{
  const uint8_t *x = (const uint8_t *)a;
  const uint8_t *y = (const uint8_t *)b;
  for (uint64_t __k = 0; __k < n; ++__k) {
    if (x[__k] != y[__k]) return x[__k] < y[__k] ? -1 : 1;
  }
  return 0;
}
static inline uint32_t cxx_bswap32(uint32_t v)
{ /* htonl/ntohl on the little-endian hosts the repository builds for */
  return (v >> 24) | ((v >> 8) & 0xFF00u) | ((v << 8) & 0xFF0000u) | (v << 24);
}
static inline uint16_t cxx_bswap16(uint16_t v) { return (uint16_t)((v >> 8) | (v << 8)); }

#define CXX_FILL(T, S) \
  static inline void cxx_fill_##S(T *first, T *last, T v) { for (T *__p = first; __p != last; ++__p) *__p = v; }
#define CXX_COPY(T, S) \
  static inline T *cxx_copy_##S(const T *first, const T *last, T *out) \
  { for (const T *__p = first; __p != last; ++__p) { *out = *__p; ++out; } return out; }
#define CXX_EQUAL(T, S) \
  static inline _Bool cxx_equal_##S(const T *first, const T *last, const T *other) \
  { for (const T *__p = first; __p != last; ++__p) { if (!(*__p == *other)) return 0; ++other; } return 1; }
#define CXX_REVERSE(T, S) \
  static inline void cxx_reverse_##S(T *first, T *last) \
  { while (first != last && first != --last) { T __t = *first; *first = *last; *last = __t; ++first; } }

#endif
