/* C02: TTL window / sanitisers for every Config value and every requested TTL (loop-free: full-domain proof) */
#include "ttl.c"
#include "common.h"
void h_sanitize_config(void) { Config in_config; Config r = sanitize_config(in_config); CANARY_POINT(); }
void h_clamp(void) { int64_t in_ttl, in_min, in_max; int64_t r = clamp_chunk_ttl(in_ttl, in_min, in_max); CANARY_POINT(); }
void h_enforce(void) { int64_t in_ttl, in_min, in_max; opt_i64 r = enforce_manifest_ttl(in_ttl, in_min, in_max); CANARY_POINT(); }
/* composition used by Node::store_chunk: clamp(ttl, cfg.min, cfg.max) with cfg = sanitize_config(any) lies in [1 s, 24 h] */
void h_compose(void)
{
  Config in_config; int64_t in_ttl;
  Config c = sanitize_config(in_config);
  int64_t t = clamp_chunk_ttl(in_ttl, c.min_manifest_ttl, c.max_manifest_ttl);
  __CPROVER_assert(c.min_manifest_ttl <= t && t <= c.max_manifest_ttl && 1 <= t && t <= 86400, "effective TTL inside sanitised window");
  CANARY_POINT();
}
