/* specification: number of leading zero bits of a big-endian bit string of n bytes (n <= 32) */
#ifndef SPEC_CLZ_H
#define SPEC_CLZ_H
#include <stdint.h>
static inline uint64_t spec_clz(const uint8_t *d, uint64_t n)
{
  for (uint64_t bit = 0; bit < 256; bit++) {
    if (bit >= 8 * n) return 8 * n;
    if ((d[bit >> 3] >> (7 - (bit & 7))) & 1) return bit;
  }
  return 8 * n;
}
#define BE64_BYTE(v, k) ((uint8_t)(((uint64_t)(v)) >> (8 * (7 - (k)))))
#endif
