// native replay for C18: the REAL decode_manifest, compiled with -fsanitize=undefined,address (no recovery), on manifests whose
// 64-bit expiry field takes extreme values, and on structured garbage.  Any sanitizer report aborts the process (exit != 0/1);
// an exception type other than std::invalid_argument is exit 1.
#include "ephemeralnet/protocol/Manifest.hpp"
#include <cstdio>
#include <cstring>
#include <string>
#include <random>
#include <typeinfo>
using namespace ephemeralnet;
static const char* kB64 = "ABCDEFGHIJKLMNOPQRSTUVWXYZabcdefghijklmnopqrstuvwxyz0123456789+/";
static std::string b64(const std::vector<std::uint8_t>& in) {
    std::string out; std::size_t i = 0;
    for (; i + 2 < in.size(); i += 3) { const unsigned t = (in[i] << 16) | (in[i + 1] << 8) | in[i + 2]; out += kB64[(t >> 18) & 63]; out += kB64[(t >> 12) & 63]; out += kB64[(t >> 6) & 63]; out += kB64[t & 63]; }
    if (i < in.size()) { unsigned t = in[i] << 16; if (i + 1 < in.size()) t |= in[i + 1] << 8; out += kB64[(t >> 18) & 63]; out += kB64[(t >> 12) & 63]; out += (i + 1 < in.size()) ? kB64[(t >> 6) & 63] : '='; out += '='; }
    return out;
}
static int probe(const std::string& uri, const char* what) {
    try { (void)protocol::decode_manifest(uri); }
    catch (const std::invalid_argument&) {}
    catch (const std::exception& e) { std::printf("REPRODUCED: %s: decode_manifest threw %s (\"%s\"), not invalid_argument\n", what, typeid(e).name(), e.what()); return 1; }
    return 0;
}
int main(int argc, char** argv) {
    if (argc > 2 && std::string(argv[1]) == "text") {       // "text <hex>": decode "eph://" + the counterexample text of the base64 group
        const std::string h = argv[2]; std::string t;
        for (std::size_t i = 0; i + 1 < h.size(); i += 2) t.push_back(static_cast<char>(std::stoi(h.substr(i, 2), nullptr, 16)));
        return probe("eph://" + t, "counterexample text") ? 1 : 0;
    }
    const unsigned long long seed = argc > 1 ? std::strtoull(argv[1], nullptr, 0) : 0;
    int bad = 0;
    const std::uint64_t expiries[] = {0, 1, 2000000000ull, 9223372036ull, 9223372037ull, 1ull << 40, 1ull << 62, (1ull << 63) - 1, 1ull << 63, ~0ull, ~0ull - 5};
    for (const auto e : expiries) {
        std::vector<std::uint8_t> p(88, 0); p[0] = 1;                 // version 1, ids, nonce, then the 8-byte expiry at offset 77
        for (int k = 0; k < 8; ++k) p[77 + k] = static_cast<std::uint8_t>(e >> (56 - 8 * k));
        p[85] = 1; p[86] = 1; p[87] = 0;
        std::printf("expiry field %llu\n", static_cast<unsigned long long>(e)); std::fflush(stdout);
        bad += probe("eph://" + b64(p), "extreme expiry");
    }
    std::mt19937_64 rng(seed);
    for (int it = 0; it < 20000; ++it) {
        std::vector<std::uint8_t> p(rng() % 260); for (auto& b : p) b = static_cast<std::uint8_t>(rng() % 7 == 0 ? rng() : rng() % 4);
        if (!p.empty()) p[0] = static_cast<std::uint8_t>(rng() % 6);
        std::string s = "eph://" + b64(p);
        if (rng() % 9 == 0 && !s.empty()) s[rng() % s.size()] = static_cast<char>(rng());
        bad += probe(s, "structured garbage");
    }
    if (bad) return 1;
    std::printf("no undefined behaviour reported, only invalid_argument raised\n");
    return 0;
}
