/* C24 (back-off arithmetic): schedule_next_fetch_attempt under its function contract for every attempt count, configuration (bounded
   only so that seconds fit into int64 nanoseconds) and clock reading. */
#include "backoff.c"
#include "common.h"
void h_backoff(void)
{
  Node *in_node = malloc(sizeof(Node)); Node__PendingFetchState *in_state = malloc(sizeof(Node__PendingFetchState)); _Bool in_success;
  __CPROVER_assume(in_node && in_state);
  __g_clock_fixed = 1;
  Node__schedule_next_fetch_attempt(in_node, in_state, in_success);
  CANARY_POINT();
}
