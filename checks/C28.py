from vdriver import Group
META = {'level': 'other'}
def groups(tier):
    return [Group('store.admission', 'ctrl_admit', 'C28/admit.c', entry='h_admit', unwind=3, kind='skeleton', checks=[], skeleton=True, replay='rate',
                  bound='control-flow skeleton (E3) with value tags; loops unrolled twice', timeout=900, backend=['sat', 'cadical'],
                  clause='STORE: body read only after the length check; store_chunk only with the TTL found inside the window, a valid PoW '
                         'when enabled, and after the rate limiter admitted the request under the client address (or a verified token)')]


def replay(group, trace):
    """a REAL Node + ControlServer without a token: 12 STOREs from one address with 12 different TOKEN headers"""
    import sys, os, random
    root = os.path.dirname(os.path.dirname(os.path.abspath(__file__)))
    sys.path.insert(0, os.path.join(root, 'replay'))
    import replaylib as R
    exe = R.build_full('C28.cpp')
    port = 23000 + (os.getpid() * 17 + random.randint(0, 9000)) % 14000
    rc, out = R.run(exe, [port], timeout=90)
    last = [l for l in out.strip().splitlines() if l.strip()][-1:] or ['']
    return rc == 1, last[0][:400]
