/* C09: chacha20_block == RFC 8439 block function for every key, nonce and counter (constant loops fully unwound).
   h_block_frame: the function under its contract through goto-instrument --dfcc --enforce-contract: assigns clause (frame)
                  and memory safety for every key, nonce and counter.  The write-set instrumented formula of the functional
                  ensures is not decided by any installed back end within 10 minutes (measured: MiniSat, CaDiCaL, cvc5), so the
                  ghost counter is assumed different from the actual one here (ensures vacuous) and the functional clause is
                  discharged by
   h_block_plain: assume CONTRACT_REQUIRES (the verbatim requires text of contracts/chacha20.spec, emitted as a macro by the
                  lowering), call the lowered function, assert CONTRACT_ENSURES (verbatim ensures text) and byte-for-byte
                  equality with the independent RFC 8439 reference -- the same obligation as --enforce-contract minus the
                  write-set instrumentation. */
#include "chacha20.c"
#include "rfc8439.h"
#include "common.h"
void h_block_frame(void)
{
  crypto__Key in_key; crypto__Nonce in_nonce; uint32_t in_counter; arr_u8_64 out;
  __CPROVER_assume(__g_I < 64);
  __CPROVER_assume(__g_C != in_counter);   /* functional ensures is h_block_plain's job; frame and safety do not depend on ghosts */
  crypto__chacha20_block(&in_key, &in_nonce, in_counter, &out);
  CANARY_POINT();
}

void h_block_plain(void)
{
  crypto__Key in_key; crypto__Nonce in_nonce; uint32_t in_counter; arr_u8_64 out;
  uint8_t ref[64];
  crypto__Key *key = &in_key; crypto__Nonce *nonce = &in_nonce; uint32_t counter = in_counter; arr_u8_64 *buffer = &out;
  rfc8439_block(in_key.bytes._, in_nonce.bytes._, in_counter, ref);
  /* definition of the ghost constant: __g_K == RFC8439-block(key, nonce, __g_C)[__g_I].  Only the case __g_C == counter is
     constrained (one reference computation); for __g_C != counter the ensures clause is vacuous and __g_K stays arbitrary. */
  __CPROVER_assume(__g_I < 64);
  __CPROVER_assume(__g_C == in_counter ==> __g_K == ref[__g_I]);
  __CPROVER_assume(CONTRACT_REQUIRES_crypto__chacha20_block);
  crypto__chacha20_block(key, nonce, counter, buffer);
  __CPROVER_assert(CONTRACT_ENSURES_crypto__chacha20_block, "contract ensures of chacha20_block (verbatim clause text)");
  for (int i = 0; i < 64; i++) __CPROVER_assert(out._[i] == ref[i], "chacha20_block equals the RFC 8439 block function");
  CANARY_POINT();
}
