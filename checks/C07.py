from vdriver import Group
META = {'level': 'other', 'assumptions': ['group bucket.upsert: bucket_index_for is replaced by a harness stand-in that returns a harness-chosen constant satisfying its contract (none, or an index below 256); the contract itself is decided on the function body by group index.msb', 'std::deque is lowered to the vector model']}
def replay(group, trace):
    """the REAL KademliaTable: a contact refreshed with a shorter deadline and a new address; the node's own id registered"""
    import sys, os
    if group.replay not in ('refresh', 'closest'):
        return None, 'no native replay for this group'
    root = os.path.dirname(os.path.dirname(os.path.abspath(__file__)))
    sys.path.insert(0, os.path.join(root, 'replay'))
    import replaylib as R
    exe = R.build_full('C07.cpp', with_daemon=False)
    rc, out = R.run(exe, ['closest'] if group.replay == 'closest' else [], timeout=60)
    last = [l for l in out.strip().splitlines() if l.strip()][-1:] or ['']
    return rc == 1, last[0][:400]


def groups(tier):
    return [Group('index.msb', 'kad_index', 'C07/index.c', entry='h_bucket_index', enforce='KademliaTable__bucket_index_for',
                  unwind=257, kind='constant-unwind', bound='32 id bytes / 256 bits', timeout=600,
                  clause='bucket index == index of the highest bit differing from the local id, none iff the ids are equal (all 2^512 pairs)'),
            Group('distance.xor', 'kad_index', 'C07/index.c', entry='h_xor_distance', enforce='KademliaTable__xor_distance',
                  unwind=33, kind='constant-unwind', bound='32 id bytes',
                  clause='xor_distance is the bytewise XOR'),
            Group('distance.order', 'kad_index', 'C07/index.c', entry='h_order', unwind=33, kind='constant-unwind', bound='32 bytes',
                  clause='the order used on distances is the numeric order of 256-bit values'),
            Group('bucket.upsert', 'kad_bucket', 'C07/bucket.c', entry='h_upsert', unwind=7, extra=['--max-field-sensitivity-array-size', '300'],
                  unwind_by={'same_id': 33, 'cxx_memcmp': 33, 'h_upsert': 257, 'body': 33, 'str_from_n': 6, 'cxx_strlen': 6}, kind='bounded', backend=['sat', 'cadical'], timeout=1800,
                  checks=['--bounds-check', '--pointer-check'], defines=['CXX_FIXED_STORAGE', 'CXX_VEC_CAP=6', 'B=3'], replay='refresh',
                  bound='a bucket holding at most 3 contacts (so the 16-contact limit is not reached); contact ids range over 256 values; three representative bucket indices',
                  clause='upsert_bucket: the node itself is never held; only the contact\'s own bucket changes; exactly one entry per id, carrying the newest address and deadline; '
                         'unexpired others kept, expired dropped'),
            Group('closest.k', 'kad_closest', 'C07/closest.c', entry='h_closest', unwind=6, unwind_by={'KademliaTable__closest_peers#0': 257, 'KademliaTable__xor_distance': 33, 'cxx_memcmp': 33, 'dist_lt': 33, 'h_closest': 33},
                  extra=['--max-field-sensitivity-array-size', '300'], kind='bounded', backend=['sat', 'cadical'], timeout=1800, checks=['--bounds-check', '--pointer-check'],
                  defines=['CXX_FIXED_STORAGE', 'CXX_VEC_CAP=6'], replay='closest',
                  bound='three contacts in three buckets (ids differ in byte 0; target, deadlines, clock, limit <= 4 symbolic)',
                  clause='closest_peers returns min(limit, n) unexpired contacts in strictly increasing XOR distance, none of the omitted ones closer than a listed one')]
