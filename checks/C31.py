from vdriver import Group
META = {'level': 'other'}
def groups(tier):
    n = 16 if tier == 'quick' else 40
    K = dict(harness='C31/names.c', entry='h_sanitize', unwind=n + 3, kind='bounded', backend=['sat', 'cadical'], timeout=900,
             checks=['--bounds-check', '--pointer-check'],
             bound=f'input strings of at most {n} bytes, every byte value in every position (the 255-byte cap is therefore not reached)')
    D = ['CXX_FIXED_STORAGE', f'CXX_VEC_CAP={n + 8}', f'N={n}']
    return [Group('fetch.sanitize_filename', 'filenames', defines=D + ['UNIT_FETCH'], replay='fetch',
                  clause='the name `eph fetch` derives from the manifest is empty (fallback to the hex chunk id) or a safe single path component', **K),
            Group('store.sanitize_filename', 'filenames_node', defines=D + ['UNIT_NODE'], replay='node',
                  clause='the name Node::store_chunk records in a manifest is empty (nothing recorded) or a safe single path component', **K),
            Group('hint.sanitize_filename_hint', 'filenames_hint', defines=D, replay='hint',
                  clause='the name hint `eph store` sends is a single path component (no separator, never "." / ".."), at most 255 bytes', **K)]
def replay(group, trace):
    """the REAL sanitiser on the counterexample text (node: through Node::store_chunk; hint: sanitize_filename_hint).  The fetch
    lambda is local to main() and has no native entry point: no replay for it."""
    import sys, os, re
    root = os.path.dirname(os.path.dirname(os.path.abspath(__file__)))
    sys.path.insert(0, os.path.join(root, 'replay'))
    import replaylib as R
    if group.replay == 'fetch':
        return None, 'the lambda is local to main(): no native entry point'
    a = (trace or {}).get('assignments', {})
    if 'in_len' not in a:
        return None, 'counterexample has no input text'
    n = R.num(a['in_len'])
    text = bytes((R.num(a.get(f'in_text[{k}]', 0)) & 0xFF) for k in range(n))
    exe = R.build_full('C31.cpp', with_daemon=False)
    rc, out = R.run(exe, [group.replay, text.hex() or '00'[:0]], timeout=60)
    last = [l for l in out.strip().splitlines() if l.strip()][-1:] or ['']
    return rc == 1, f'input {text!r}: ' + last[0][:300]
