/* C19 (TokenChallenge.cpp): digest_meets_difficulty accepts exactly when clz(digest) >= difficulty */
#include "pow_token.c"
#include "clz.h"
#include "common.h"
void h_token(void)
{
  uint8_t in_digest[32]; uint64_t in_n; uint8_t in_bits;
  __CPROVER_assume(in_n <= 32);
  _Bool ok = bootstrap__digest_meets_difficulty((span_u8){in_digest, in_n}, in_bits);
  __CPROVER_assert(ok == (in_bits == 0 || spec_clz(in_digest, in_n) >= in_bits), "digest_meets_difficulty == (clz >= bits)");
  CANARY_POINT();
}
