from vdriver import Group
META = {'level': 'other', 'assumptions': ['the statements of compute_plan between the two slices (scoring, sorting, std::ostringstream diagnostics, creation of the assignment list) are not under contract; the native replay re-checks all clauses end to end on a grid']}
def groups(tier):
    t = 6 if tier == 'quick' else 9
    K = dict(unit='swarm_plan', harness='C22/plan.c', backend=['sat', 'cadical', 'cvc5'], timeout=600, checks=['--bounds-check', '--pointer-check'], replay='grid')
    return [Group('plan.provider_count', entry='h_count', unwind=3, kind='unbounded', stub=['KademliaTable__closest_peers'],
                  clause='compute_plan (the provider-count statements, lowered as a slice): providers = min(candidates, shards, max(target replicas, '
                         'min(max(minimum providers, threshold), candidates, shards))) for every configuration, threshold, candidate and shard count', **K),
            Group('plan.distribute', entry='h_distribute', unwind=t + 2, unwind_by={'h_distribute': t + 2}, kind='bounded', stub=['KademliaTable__closest_peers'],
                  defines=['CXX_FIXED_STORAGE', f'CXX_VEC_CAP={2 * t + 4}', 'P=3', f'T={t}'], bound=f'at most 3 providers and {t} shards (all share labels)',
                  clause='compute_plan (the distribution loop, lowered as a slice): every shard goes to exactly one provider, every provider gets at least one, '
                         'counts differ by at most one', **K),
            Group('plan.candidates', entry='h_candidates', unwind=6, unwind_by={'cxx_memcmp': 34, 'cxx_copy_u8': 34, 'h_candidates': 6, 'h_distribute': 12}, kind='bounded', stub=['KademliaTable__closest_peers'],
                  defines=['CXX_FIXED_STORAGE', 'CXX_VEC_CAP=6'], bound='the table answers with at most 3 peers',
                  clause='candidate_peers: asks the table for max(sample, 1) peers and offers exactly its answers other than the node itself', **K)]
def replay(group, trace):
    """the REAL compute_plan on a grid of small inputs, every clause re-checked natively"""
    import sys, os
    root = os.path.dirname(os.path.dirname(os.path.abspath(__file__)))
    sys.path.insert(0, os.path.join(root, 'replay'))
    import replaylib as R
    exe = R.build_full('C22.cpp', with_daemon=False)
    rc, out = R.run(exe, [], timeout=240)
    last = [l for l in out.strip().splitlines() if l.strip()][-1:] or ['']
    return rc == 1, last[0][:400]
