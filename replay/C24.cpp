// native replay for C24: the REAL Node.  A pending fetch that is IN FLIGHT (it holds one unit of its peer's in-flight count) is
// re-announced (schedule_assigned_fetch runs again for the same chunk).  exit 1 = the peer's in-flight count and the number of
// in-flight fetches disagree afterwards (a leaked slot never returns to zero).
#include "src/core/Node.cpp"
#include <cstdio>
using namespace ephemeralnet;
static std::size_t in_flight_of(Node& n, const PeerId& p) { std::size_t c = 0; for (const auto& [k, s] : n.pending_chunk_fetches_) if (s.in_flight && s.peer_id == p) ++c; return c; }
static std::size_t counted_of(Node& n, const PeerId& p) { const auto it = n.active_peer_requests_.find(peer_id_to_string(p)); return it == n.active_peer_requests_.end() ? 0 : it->second; }
int main() {
    Config config{}; config.identity_seed = 24u; config.fetch_max_parallel_requests = 2;
    PeerId self{}, peer{}; self[0] = 0xE1; peer[0] = 0xE2;
    Node node(self, config);
    protocol::Manifest m{}; m.chunk_id[0] = 0x24; m.threshold = 1; m.total_shares = 1;
    protocol::KeyShard s{}; s.index = 1; m.shards.push_back(s);
    m.expires_at = std::chrono::system_clock::now() + std::chrono::hours(1);
    protocol::AnnouncePayload ap{}; ap.chunk_id = m.chunk_id; ap.peer_id = peer; ap.manifest_uri = protocol::encode_manifest(m);
    ap.endpoint = "127.0.0.1:9"; ap.ttl = std::chrono::seconds(60); ap.assigned_shards = {1};
    node.schedule_assigned_fetch(ap);                       // creates the pending fetch (the dispatch itself fails: no session)
    const auto key = chunk_id_to_string(m.chunk_id);
    auto it = node.pending_chunk_fetches_.find(key);
    if (it == node.pending_chunk_fetches_.end()) { std::printf("no pending fetch was created\n"); return 2; }
    // put it in flight the way dispatch_pending_fetch does after a successful send
    node.note_dispatch_start(it->second); it->second.in_flight = true; it->second.next_attempt = std::chrono::steady_clock::now() + std::chrono::seconds(30);
    std::printf("before the re-announce: in-flight fetches of the peer %zu, counted %zu\n", in_flight_of(node, peer), counted_of(node, peer));
    node.schedule_assigned_fetch(ap);                       // the peer announces the chunk again
    const auto f = in_flight_of(node, peer), c = counted_of(node, peer);
    std::printf("after the re-announce: in-flight fetches of the peer %zu, counted %zu\n", f, c);
    if (f != c) { std::printf("REPRODUCED: the peer's in-flight count (%zu) no longer equals its number of in-flight fetches (%zu): the slot taken by the fetch is never released\n", c, f); return 1; }
    std::printf("in-flight count and in-flight fetches agree\n");
    return 0;
}
