/* C15: decode(encode(m)) == m (version clamped to 1..4; announce PoW nonce carried from version 3 on).
   BOUNDED: strings / byte lists have at most MAXLEN bytes (default 2); all integer fields, ids and versions are full-domain. */
#include "message.c"
#include "common.h"
#ifndef MAXLEN
#define MAXLEN 2
#endif
/* lengths are CONCRETE per run (one process per length combination): symbolic lengths make every byte copy a symbolic
   array update and the SAT formula 30x larger; contents stay symbolic */
#ifndef LEN_A
#define LEN_A 0
#endif
#ifndef LEN_B
#define LEN_B 0
#endif
#ifndef LEN_C
#define LEN_C 0
#endif
static str nd_str(uint64_t n)
{
  str s; s.p = malloc(MAXLEN + 1); __CPROVER_assume(s.p != 0); s.n = n; s.cap = n; return s;
}
static vec_u8 nd_vec(uint64_t n)
{
  vec_u8 v; v.p = malloc(MAXLEN + 1); __CPROVER_assume(v.p != 0); v.n = n; v.cap = n; return v;
}
static _Bool arr32_eq(const arr_u8_32 *a, const arr_u8_32 *b) { for (int i = 0; i < 32; i++) if (a->_[i] != b->_[i]) return 0; return 1; }
static _Bool bytes_eq(const uint8_t *a, uint64_t an, const uint8_t *b, uint64_t bn)
{ if (an != bn) return 0; for (uint64_t i = 0; i < MAXLEN; i++) if (i < an && a[i] != b[i]) return 0; return 1; }

void h_roundtrip(void)
{
  protocol__Message in_m;
#ifdef TYPE
  in_m.payload.index = TYPE;          /* constant: lets symbolic execution prune the other alternatives */
  in_m.type = TYPE + 1;
#endif
  __CPROVER_assume(in_m.payload.index < 6 && in_m.type == in_m.payload.index + 1);
  uint8_t ix = in_m.payload.index;
  /* type invariant of bool fields (a C++ bool only holds 0 or 1) */
  __CPROVER_assume(in_m.payload._3.accepted <= 1 && in_m.payload._5.accepted <= 1);
  if (ix == 0) {
    in_m.payload._0.endpoint = nd_str(LEN_A); in_m.payload._0.manifest_uri = nd_str(LEN_B); in_m.payload._0.assigned_shards = nd_vec(LEN_C);
    __CPROVER_assume(in_m.payload._0.ttl >= 0 && in_m.payload._0.ttl < 0x100000000l);
  }
  if (ix == 2) {
    in_m.payload._2.data = nd_vec(LEN_A);
    __CPROVER_assume(in_m.payload._2.ttl >= 0 && in_m.payload._2.ttl < 0x100000000l);
  }
  vec_u8 enc = protocol__encode(&in_m);
  opt_protocol__Message d = protocol__decode((span_u8){enc.p, enc.n});
  uint8_t v = in_m.version < 1 ? 1 : in_m.version > 4 ? 4 : in_m.version;
  __CPROVER_assert(enc.n >= 2 && enc.p[0] == v, "a version outside 1..4 is encoded as the nearest supported version");
  __CPROVER_assert(d.has, "the encoding decodes");
  if (d.has) {
    __CPROVER_assert(d.v.version == v && d.v.type == in_m.type && d.v.payload.index == ix, "version, type and payload kind survive");
    if (ix == 0 && d.v.payload.index == 0) {
      protocol__AnnouncePayload *a = &in_m.payload._0, *b = &d.v.payload._0;
      __CPROVER_assert(arr32_eq(&a->chunk_id, &b->chunk_id) && arr32_eq(&a->peer_id, &b->peer_id) && a->ttl == b->ttl, "announce ids and ttl");
      __CPROVER_assert(bytes_eq((uint8_t *)a->endpoint.p, a->endpoint.n, (uint8_t *)b->endpoint.p, b->endpoint.n) &&
                       bytes_eq((uint8_t *)a->manifest_uri.p, a->manifest_uri.n, (uint8_t *)b->manifest_uri.p, b->manifest_uri.n) &&
                       bytes_eq(a->assigned_shards.p, a->assigned_shards.n, b->assigned_shards.p, b->assigned_shards.n), "announce strings and shard list");
      __CPROVER_assert(b->work_nonce == (v >= 3 ? a->work_nonce : 0), "announce PoW nonce carried from version 3 onward");
    }
    if (ix == 1 && d.v.payload.index == 1)
      __CPROVER_assert(arr32_eq(&in_m.payload._1.chunk_id, &d.v.payload._1.chunk_id) && arr32_eq(&in_m.payload._1.requester, &d.v.payload._1.requester), "request");
    if (ix == 2 && d.v.payload.index == 2)
      __CPROVER_assert(arr32_eq(&in_m.payload._2.chunk_id, &d.v.payload._2.chunk_id) && in_m.payload._2.ttl == d.v.payload._2.ttl &&
                       bytes_eq(in_m.payload._2.data.p, in_m.payload._2.data.n, d.v.payload._2.data.p, d.v.payload._2.data.n), "chunk");
    if (ix == 3 && d.v.payload.index == 3)
      __CPROVER_assert(arr32_eq(&in_m.payload._3.chunk_id, &d.v.payload._3.chunk_id) && arr32_eq(&in_m.payload._3.peer_id, &d.v.payload._3.peer_id) &&
                       in_m.payload._3.accepted == d.v.payload._3.accepted, "acknowledge");
    if (ix == 4 && d.v.payload.index == 4)
      __CPROVER_assert(in_m.payload._4.public_identity == d.v.payload._4.public_identity && in_m.payload._4.work_nonce == d.v.payload._4.work_nonce &&
                       in_m.payload._4.requested_version == d.v.payload._4.requested_version, "transport handshake");
    if (ix == 5 && d.v.payload.index == 5)
      __CPROVER_assert(in_m.payload._5.accepted == d.v.payload._5.accepted && in_m.payload._5.negotiated_version == d.v.payload._5.negotiated_version &&
                       in_m.payload._5.responder_public == d.v.payload._5.responder_public, "handshake ack");
  }
  CANARY_POINT();
}
