/* C19 (main.cpp): CLI leading-zero counter and transport handshake PoW validator (must agree with the node's) */
#include "pow_cli.c"
#include "clz.h"
#include "common.h"
void h_clz(void)
{
  uint8_t in_digest[32]; uint64_t in_n;
  __CPROVER_assume(in_n <= 32);
  uint64_t r = count_leading_zero_bits((span_u8){in_digest, in_n});
  __CPROVER_assert(r == spec_clz(in_digest, in_n), "CLI count_leading_zero_bits == clz");
  CANARY_POINT();
}
void h_transport(void)
{
  arr_u8_32 in_initiator, in_responder; uint32_t in_public; uint64_t in_nonce; uint8_t in_difficulty;
  __g_sha_len = 0; __g_sha_seen = 0; __g_sha_finalized = 0; __g_sha_ctors = 0;
  _Bool ok = transport_pow_valid(&in_initiator, &in_responder, in_public, in_nonce, in_difficulty);
  if (in_difficulty == 0) {
    __CPROVER_assert(ok, "difficulty 0 accepts");
  } else {
    __CPROVER_assert(__g_sha_ctors == 1 && __g_sha_finalized == 1 && __g_sha_len == 96, "one hash over 96 bytes");
    uint64_t p = __g_sha_pos;
    if (p < 96) {
      uint8_t want = p < 8 ? BE64_BYTE(32, p) : p < 40 ? in_initiator._[p - 8] : p < 48 ? BE64_BYTE(32, p - 40)
                   : p < 80 ? in_responder._[p - 48] : p < 88 ? BE64_BYTE(in_public, p - 80) : BE64_BYTE(in_nonce, p - 88);
      __CPROVER_assert(__g_sha_seen && __g_sha_byte == want, "hashed byte equals the node's handshake encoding");
    }
    __CPROVER_assert(ok == (spec_clz(__g_sha_digest._, 32) >= in_difficulty), "accepted iff clz(digest) >= difficulty");
  }
  CANARY_POINT();
}
void h_transport_solver(void)
{
  arr_u8_32 *in_i = malloc(sizeof(arr_u8_32)), *in_r = malloc(sizeof(arr_u8_32));
  uint32_t in_public; uint8_t in_difficulty;
  __CPROVER_assume(in_i && in_r);
  __g_sha_len = 0; __g_sha_seen = 0; __g_sha_finalized = 0; __g_sha_ctors = 0; __g_tpv_called = 0;
  opt_u64 r = compute_transport_pow(in_i, in_r, in_public, in_difficulty);
  CANARY_POINT();
}
