/* C27 (handlers): with a configured control token, no gated effect (store, manifest registration, chunk read, daemon-side file
   write, stop callback, transport stop) is reachable in handle_client before constant_time_equal(configured token, request
   header) returned true.  Runs on the control-flow SKELETON of the handlers (every untracked condition is arbitrary). */
#include "ctrl_auth.c"
#include "common.h"
void h_gate(void)
{
  g_token_configured = nondet_bool();
  g_token_ok = 0; g_effects = 0;
  skel_daemon__Impl__handle_client();
  __CPROVER_assert(!g_token_configured || g_token_ok || g_effects == 0, "a request without the exact token has no effect");
  CANARY_POINT();
}
