// native replay for C24: the REAL Node.  A pending fetch that is IN FLIGHT (it holds one unit of its peer's in-flight count) is
// re-announced (schedule_assigned_fetch runs again for the same chunk).  exit 1 = the peer's in-flight count and the number of
// in-flight fetches disagree afterwards (a leaked slot never returns to zero).
#include "src/core/Node.cpp"
#include <cstdio>
#include <string>
using namespace ephemeralnet;
static std::size_t in_flight_of(Node& n, const PeerId& p) { std::size_t c = 0; for (const auto& [k, s] : n.pending_chunk_fetches_) if (s.in_flight && s.peer_id == p) ++c; return c; }
static std::size_t counted_of(Node& n, const PeerId& p) { const auto it = n.active_peer_requests_.find(peer_id_to_string(p)); return it == n.active_peer_requests_.end() ? 0 : it->second; }
// scenario backoff: every dispatch to an unreachable peer fails; the delays until the next attempt must be initial, 2*initial, ...
// capped at the maximum (initial 10 s, maximum 35 s: 10, 20, 35, 35)
static int backoff() {
    Config config{}; config.identity_seed = 24u; config.fetch_retry_initial_backoff = std::chrono::seconds(10); config.fetch_retry_max_backoff = std::chrono::seconds(35);
    config.fetch_retry_attempt_limit = 10; config.fetch_max_parallel_requests = 3;
    PeerId self{}, peer{}; self[0] = 0xE1; peer[0] = 0xE2;
    Node node(self, config);
    protocol::Manifest m{}; m.chunk_id[0] = 0x25; m.threshold = 1; m.total_shares = 1;
    protocol::KeyShard s{}; s.index = 1; m.shards.push_back(s);
    m.expires_at = std::chrono::system_clock::now() + std::chrono::hours(1);
    protocol::AnnouncePayload ap{}; ap.chunk_id = m.chunk_id; ap.peer_id = peer; ap.manifest_uri = protocol::encode_manifest(m);
    ap.endpoint = ""; ap.ttl = std::chrono::seconds(60); ap.assigned_shards = {1};
    const auto key = chunk_id_to_string(m.chunk_id);
    const double want[4] = {10, 20, 35, 35};
    for (int attempt = 0; attempt < 4; ++attempt) {
        const auto before = std::chrono::steady_clock::now();
        if (attempt == 0) node.schedule_assigned_fetch(ap);
        else { auto it = node.pending_chunk_fetches_.find(key); if (it == node.pending_chunk_fetches_.end()) { std::printf("the pending fetch vanished\n"); return 2; } it->second.next_attempt = before; node.process_pending_fetches(); }
        const auto it = node.pending_chunk_fetches_.find(key);
        if (it == node.pending_chunk_fetches_.end()) { std::printf("the pending fetch was dropped after attempt %d (limit 10)\n", attempt + 1); return 2; }
        const double delay = std::chrono::duration<double>(it->second.next_attempt - before).count();
        if (delay < want[attempt] - 0.5 || delay > want[attempt] + 1.5) { std::printf("REPRODUCED: the delay after failed attempt %d is %.0f s, not %.0f s (initial back-off 10 s doubling up to the 35 s maximum)\n", attempt + 1, delay, want[attempt]); return 1; }
    }
    std::printf("retry delays 10, 20, 35, 35 s as required\n");
    return 0;
}
int main(int argc, char** argv) {
    if (argc > 1 && std::string(argv[1]) == "backoff") return backoff();
    Config config{}; config.identity_seed = 24u; config.fetch_max_parallel_requests = 2;
    PeerId self{}, peer{}; self[0] = 0xE1; peer[0] = 0xE2;
    Node node(self, config);
    protocol::Manifest m{}; m.chunk_id[0] = 0x24; m.threshold = 1; m.total_shares = 1;
    protocol::KeyShard s{}; s.index = 1; m.shards.push_back(s);
    m.expires_at = std::chrono::system_clock::now() + std::chrono::hours(1);
    protocol::AnnouncePayload ap{}; ap.chunk_id = m.chunk_id; ap.peer_id = peer; ap.manifest_uri = protocol::encode_manifest(m);
    ap.endpoint = "127.0.0.1:9"; ap.ttl = std::chrono::seconds(60); ap.assigned_shards = {1};
    node.schedule_assigned_fetch(ap);                       // creates the pending fetch (the dispatch itself fails: no session)
    const auto key = chunk_id_to_string(m.chunk_id);
    auto it = node.pending_chunk_fetches_.find(key);
    if (it == node.pending_chunk_fetches_.end()) { std::printf("no pending fetch was created\n"); return 2; }
    // put it in flight the way dispatch_pending_fetch does after a successful send
    node.note_dispatch_start(it->second); it->second.in_flight = true; it->second.next_attempt = std::chrono::steady_clock::now() + std::chrono::seconds(30);
    std::printf("before the re-announce: in-flight fetches of the peer %zu, counted %zu\n", in_flight_of(node, peer), counted_of(node, peer));
    node.schedule_assigned_fetch(ap);                       // the peer announces the chunk again
    const auto f = in_flight_of(node, peer), c = counted_of(node, peer);
    std::printf("after the re-announce: in-flight fetches of the peer %zu, counted %zu\n", f, c);
    if (f != c) { std::printf("REPRODUCED: the peer's in-flight count (%zu) no longer equals its number of in-flight fetches (%zu): the slot taken by the fetch is never released\n", c, f); return 1; }
    // the same, but the fetch in flight with `peer` is re-announced by ANOTHER peer: the slot must be given back to `peer`
    it = node.pending_chunk_fetches_.find(key);
    if (it == node.pending_chunk_fetches_.end()) { std::printf("the pending fetch vanished\n"); return 2; }
    if (!it->second.in_flight) { it->second.peer_id = peer; node.note_dispatch_start(it->second); it->second.in_flight = true; }
    PeerId other{}; other[0] = 0xE3;
    auto ap2 = ap; ap2.peer_id = other; ap2.endpoint = "";
    node.schedule_assigned_fetch(ap2);
    for (const auto& p : {peer, other}) {
        const auto f2 = in_flight_of(node, p), c2 = counted_of(node, p);
        if (f2 != c2) { std::printf("REPRODUCED: after another peer re-announced an in-flight fetch, peer %02x has in-flight count %zu but %zu in-flight fetches (the slot was released for the wrong peer)\n", p[0], c2, f2); return 1; }
    }
    std::printf("in-flight count and in-flight fetches agree\n");
    return 0;
}
