from vdriver import Group
META = {'level': 'other'}
def groups(tier):
    return [Group('token.compare', 'ctrl_token', 'C27/token.c', entry='h_cte', enforce='daemon__constant_time_equal', loop_contracts=True,
                  backend=['sat', 'cadical'], kind='unbounded',
                  clause='constant_time_equal answers true exactly for equal strings (every length; loop invariant with ghost position and witness)')]
