/* C35 (exception clause): on the control-flow skeleton of the node's transport handlers and everything they call in Node.cpp,
   with the throwing calls named in contracts/node_exc.skel, no exception leaves handle_transport_message /
   handle_transport_handshake (on the session thread it would end the process). */
#ifndef CTRL
#include "node_exc.c"
#endif
#include "common.h"
#ifndef CTRL
void h_message(void)
{
  __skel_exc = 0;
  skel_Node__handle_transport_message();
  __CPROVER_assert(!__skel_exc, "no exception escapes Node::handle_transport_message");
  CANARY_POINT();
}
void h_handshake(void)
{
  __skel_exc = 0;
  skel_Node__handle_transport_handshake();
  __CPROVER_assert(!__skel_exc, "no exception escapes Node::handle_transport_handshake");
  CANARY_POINT();
}
#endif
#ifdef CTRL
#include "ctrl_exc.c"
void h_control(void)
{
  __skel_exc = 0;
  skel_daemon__Impl__accept_loop();
  __CPROVER_assert(!__skel_exc, "no exception escapes the control server's accept loop");
  CANARY_POINT();
}
#endif
