/* C17 (refusal clause): on the tagged control-flow skeleton of encode_manifest, every one-byte count / length field and every
   two-byte length field whose value is the size of a manifest list or string is written only after that size was compared
   with the capacity of the field and found to fit -- otherwise encoding must end in the length_error throw. */
#include "manifest_limits.c"
#include "common.h"
void h_limits(void)
{
  for (int k = 0; k < 20; ++k) { g_fits8[k] = 0; g_fits16[k] = 0; }
  for (int k = 0; k < 64; ++k) __skel_nonempty[k] = nondet_bool();
  skel_protocol__encode_manifest();
  CANARY_POINT();
}
