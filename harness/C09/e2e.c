/* C09 (bounded): ChaCha20::apply(key, nonce, input, counter) == input XOR RFC 8439 keystream (blocks counter, counter+1, counter+2
   with 32-bit wrap) for every key, nonce and initial counter and a concrete input length LEN <= 130, whatever the internal
   structure of the implementation is. */
#include "chacha20_e2e.c"
#include "rfc8439.h"
#include "common.h"
#ifndef LEN
#define LEN 130
#endif
void h_apply_e2e(void)
{
  crypto__Key in_key; crypto__Nonce in_nonce; uint32_t in_counter; uint8_t in_data[LEN + 1];
  vec_u8 out = {0};
  crypto__ChaCha20__apply(&in_key, &in_nonce, (span_u8){in_data, LEN}, &out, in_counter);
  __CPROVER_assert(out.n == LEN, "output has the input's length");
  for (int b = 0; b * 64 < LEN; ++b) {
    uint8_t ks[64];
    rfc8439_block(in_key.bytes._, in_nonce.bytes._, (uint32_t)(in_counter + (uint32_t)b), ks);
    for (int i = 0; i < 64 && b * 64 + i < LEN; ++i)
      __CPROVER_assert(out.p[b * 64 + i] == (uint8_t)(in_data[b * 64 + i] ^ ks[i]), "output byte == input byte XOR RFC 8439 keystream byte (counter advances per block, wraps mod 2^32)");
  }
  CANARY_POINT();
}
