from vdriver import Group
META = {'level': 'other'}
import re


def groups(tier):
    G = [Group('gf.tables', 'shamir', 'C10/gf.c', entry='h_tables', unwind=513, kind='constant-unwind', bound='table sizes 512/256',
               clause='exp/log tables are the powers/logs of 2 in GF(2^8)/0x11D'),
         Group('gf.mul', 'shamir', 'C10/gf.c', entry='h_mul', unwind=513, kind='constant-unwind', bound='tables; all 2^16 operand pairs',
               clause='gf_mul(a,b) == carry-less product mod 0x11D for all a,b'),
         Group('gf.div', 'shamir', 'C10/gf.c', entry='h_div', unwind=513, kind='constant-unwind', bound='tables; all 2^16 operand pairs',
               clause='gf_div(a,b)*b == a for b != 0; b == 0 raises invalid_argument'),
         Group('gf.field', 'shamir', 'C10/gf.c', entry='h_field', unwind=9, kind='constant-unwind', bound='8-bit operands',
               clause='the specification product is commutative, has identity 1 and no zero divisors')]
    G += [Group('split.indices.n<=16', 'shamir_b', 'C10/gf.c', entry='h_split_indices', defines=['N_MAX=16', 'SHAMIR_UNIT_B'], unwind=18, unwind_by={'crypto__build_exp_table': 513, 'crypto__build_log_table': 257, 'crypto__Shamir__split#1': 33}, kind='bounded',
                bound='share_count <= 16, threshold 1', timeout=1800,
                clause='split terminates and yields n shares with distinct non-zero indices 1..n'),
          Group('split.contract', 'shamir', 'C10/gf.c', entry='h_split_contract', enforce='crypto__Shamir__split', loop_contracts=True,
                replace=['vec_crypto__ShamirShare_push_back_reserved', 'vec_u8_push_back', 'crypto__evaluate_polynomial'],
                unwind=20, unwind_by={'crypto__build_exp_table': 513, 'crypto__build_log_table': 257}, kind='unbounded', timeout=2400,
                replay='split',
                clause='split terminates (loop invariants + variants on all four loops) for every threshold and share count 0..255, '
                       'yields share_count shares, and raises invalid_argument exactly for t = 0, n = 0 or t > n')]
    U = {'crypto__build_exp_table': 513, 'crypto__build_log_table': 257}
    G += [Group('split.polynomial.deg1', 'shamir_b', 'C10/gf.c', entry='h_evalpoly', defines=['SHAMIR_UNIT_B', 'DEG=1', 'CXX_FIXED_STORAGE', 'CXX_VEC_CAP=8'], unwind=10, unwind_by=U,
                checks=['--bounds-check', '--pointer-check'], kind='bounded', bound='polynomials of degree <= 1 (threshold <= 2): every x, constant term and coefficient', timeout=1800, backend=['sat', 'cadical'], replay='poly',
                clause='evaluate_polynomial == c0 + c1 x over the carry-less GF(2^8) product (what split evaluates for every share index and secret byte, threshold 2)')]
    # (degree 2 -- where a wrong power accumulation such as seed C10-b would show -- is not decided within 25 minutes: chained table look-ups with
    #  symbolic indices; it is not registered)
    for t in (1, 2, 3, 4):
        G += [Group(f'combine.rejects.t={t}', 'shamir_b', 'C10/gf.c', entry='h_combine_rejects', defines=['T_MAX=4', f'T_FIX={t}', 'SHAMIR_UNIT_B', 'CXX_VEC_CAP=8', 'CXX_FIXED_STORAGE'],
                stub=['crypto__gf_mul', 'crypto__gf_div'], unwind=34,
                unwind_by=dict(U, **{'crypto__interpolate#1': 6, 'crypto__interpolate#2': 6, 'vec_crypto__ShamirShare_from_range': 6}),
                checks=['--bounds-check', '--pointer-check', '--div-by-zero-check'], kind='bounded',
                bound=f'threshold {t} (case split 1..4), at most 4 shares; indices and value byte 0 symbolic, value bytes 1..31 zero (byte positions are independent); gf_mul / gf_div replaced by their summary contracts '
                      '(zero exactly for a zero operand; division raises exactly for a zero divisor), which groups gf.mul / gf.div establish for all operand pairs',
                timeout=600, backend=['sat', 'cadical'], replay='combine',
                clause='combine: fewer than t shares or a repeated index among the shares used => invalid_argument; nothing else escapes')]
    # (a threshold-2 reconstruction group was tried: the interpolation identity over the table-based field operations is not
    #  decided by the SAT back ends within 10 minutes even for one byte position; reconstruction stays an unchecked clause)
    return G


def replay(group, trace):
    """native replay of a split counterexample: the REAL Shamir::split on (threshold, share_count) from the trace"""
    import sys, os
    root = os.path.dirname(os.path.dirname(os.path.abspath(__file__)))
    sys.path.insert(0, os.path.join(root, 'replay'))
    import replaylib as R
    a = (trace or {}).get('assignments', {})
    if group.replay == 'combine':
        if 'in_n' not in a:
            return None, 'counterexample has no share-set assignment'
        m = re.search(r'T_FIX=(\d+)', ' '.join(group.defines))
        t = int(m.group(1)) if m else R.num(a.get('in_t'))
        n = min(R.num(a.get('in_n')), 4)
        args = ['combine', t, n]
        for k in range(n):
            args += [R.num(a.get(f'in_i{k}', 0)), R.num(a.get(f'in_v{k}', 0))]
        exe = R.build('C10.cpp', [])
        rc, out = R.run(exe, args, timeout=30)
        return rc == 1, out.strip()[-400:]
    if group.replay != 'split':
        return None, 'no native replay for this group'
    if 'in_t' not in a or 'in_n' not in a:
        return None, 'counterexample has no (threshold, share_count) assignment'
    t, n = R.num(a.get('in_t')), R.num(a.get('in_n'))
    exe = R.build('C10.cpp', [])
    rc, out = R.run(exe, [t, n], timeout=30)
    return rc == 1, f'split(threshold={t}, share_count={n}) -> exit {rc}: {out.strip()[-300:]}'
