"""native replay helpers: compile a small C++ driver together with the CURRENT /repo sources and run it"""
import os, subprocess, hashlib, json
ROOT = os.path.dirname(os.path.dirname(os.path.abspath(__file__)))
REPO = os.environ.get('VERIF_REPO', '/repo')


def build(driver, sources, extra=(), libs=()):
    """compile replay/<driver> with the listed /repo sources (relative paths); returns path of the binary"""
    outdir = os.path.join(os.environ.get('VERIF_BUILD') or os.path.join(ROOT, 'build'), 'replay')
    os.makedirs(outdir, exist_ok=True)
    h = hashlib.sha256()
    files = [os.path.join(ROOT, 'replay', driver)] + [os.path.join(REPO, s) for s in sources]
    for f in files:
        h.update(open(f, 'rb').read())
    for top in ('include', 'src'):       # drivers may #include repository .cpp files directly
        for root, _, fs in sorted(os.walk(os.path.join(REPO, top))):
            for f in sorted(fs):
                h.update(open(os.path.join(root, f), 'rb').read())
    exe = os.path.join(outdir, os.path.splitext(driver)[0] + '-' + h.hexdigest()[:12])
    if not os.path.exists(exe):
        cmd = ['g++', '-std=c++20', '-O1', '-I' + os.path.join(REPO, 'include'), '-I' + REPO, '-D_FILE_OFFSET_BITS=64'] + list(extra) + files + ['-o', exe, '-lpthread'] + list(libs)
        r = subprocess.run(cmd, stdout=subprocess.PIPE, stderr=subprocess.STDOUT)
        if r.returncode != 0:
            raise RuntimeError('replay build failed: ' + r.stdout.decode()[-1500:])
    return exe


def run(exe, args, timeout=20):
    try:
        env = dict(os.environ, ASAN_OPTIONS='detect_leaks=0')
        r = subprocess.run([exe] + [str(a) for a in args], stdout=subprocess.PIPE, stderr=subprocess.STDOUT, timeout=timeout, env=env)
        return r.returncode, r.stdout.decode(errors='replace')[-2000:]
    except subprocess.TimeoutExpired:
        return 124, 'timeout'


def num(v, default=0):
    if v is None:
        return default
    s = str(v).strip()
    if len(s) >= 3 and s[0] == "'" and s[-1] == "'":      # CBMC prints plain-char values as C character literals
        body = s[1:-1]
        if body.startswith('\\'):
            esc = {'n': 10, 't': 9, 'r': 13, '0': 0, 'a': 7, 'b': 8, 'f': 12, 'v': 11, '\\': 92, "'": 39, '"': 34, '?': 63}
            if body[1:] in esc:
                return esc[body[1:]]
            try:
                return int(body[2:], 16) if body[1] == 'x' else int(body[1:], 8)
            except ValueError:
                return default
        return ord(body[0])
    s = s.rstrip('ulUL')
    try:
        return int(s, 0)
    except ValueError:
        return {'TRUE': 1, 'FALSE': 0}.get(s.upper(), default)


CORE = ['src/core/Node.cpp', 'src/core/ChunkStore.cpp', 'src/core/Types.cpp', 'src/core/UpdateCheck.cpp', 'src/dht/KademliaTable.cpp',
        'src/network/SessionManager.cpp', 'src/network/KeyManager.cpp', 'src/network/KeyExchange.cpp',
        'src/network/ReputationManager.cpp', 'src/network/RelayClient.cpp', 'src/crypto/ChaCha20.cpp', 'src/crypto/CryptoManager.cpp',
        'src/crypto/Sha256.cpp', 'src/crypto/HmacSha256.cpp', 'src/crypto/Shamir.cpp', 'src/security/StoreProof.cpp',
        'src/network/NatTraversal.cpp', 'src/network/AdvertiseDiscovery.cpp', 'src/core/SwarmCoordinator.cpp',
        'src/protocol/Manifest.cpp', 'src/protocol/Message.cpp', 'src/bootstrap/TokenChallenge.cpp', 'src/libephemeralnet.cpp']
DAEMON = ['src/daemon/ControlPlane.cpp', 'src/daemon/ControlClient.cpp', 'src/daemon/ControlServer.cpp', 'src/daemon/StructuredLogger.cpp']


def build_full(driver, with_daemon=True, extra=(), exclude=()):
    """compile replay/<driver> against ALL library sources of the CURRENT tree (objects compiled in parallel, cached by content);
    `exclude` lists sources the driver #includes itself"""
    import concurrent.futures as cf
    outdir = os.path.join(os.environ.get('VERIF_BUILD') or os.path.join(ROOT, 'build'), 'replay')
    os.makedirs(outdir, exist_ok=True)
    inc = hashlib.sha256()
    for root, _, fs in sorted(os.walk(os.path.join(REPO, 'include'))):
        for f in sorted(fs):
            inc.update(open(os.path.join(root, f), 'rb').read())
    inc.update(' '.join(extra).encode())
    srcs = [s for s in CORE + (DAEMON if with_daemon else []) if s not in exclude]
    flags = ['-std=c++20', '-O1', '-I' + os.path.join(REPO, 'include'), '-I' + REPO, '-D_FILE_OFFSET_BITS=64', '-w'] + list(extra)

    def obj(s):
        h = hashlib.sha256(inc.digest() + open(os.path.join(REPO, s), 'rb').read()).hexdigest()[:16]
        o = os.path.join(outdir, re_sub(s) + '-' + h + '.o')
        if not os.path.exists(o):
            r = subprocess.run(['g++'] + flags + ['-c', os.path.join(REPO, s), '-o', o + '.tmp'], stdout=subprocess.PIPE, stderr=subprocess.STDOUT)
            if r.returncode != 0:
                raise RuntimeError('replay build failed (%s): %s' % (s, r.stdout.decode()[-1500:]))
            os.rename(o + '.tmp', o)
        return o
    with cf.ThreadPoolExecutor(max_workers=12) as ex:
        objs = list(ex.map(obj, srcs))
    dh = hashlib.sha256(open(os.path.join(ROOT, 'replay', driver), 'rb').read() + ''.join(objs).encode())
    for s in exclude:
        dh.update(open(os.path.join(REPO, s), 'rb').read())
    exe = os.path.join(outdir, os.path.splitext(driver)[0] + '-' + dh.hexdigest()[:12])
    if not os.path.exists(exe):
        r = subprocess.run(['g++'] + flags + ['-fno-access-control', os.path.join(ROOT, 'replay', driver)] + objs + ['-o', exe, '-lpthread', '-lcurl'],
                           stdout=subprocess.PIPE, stderr=subprocess.STDOUT)
        if r.returncode != 0:
            raise RuntimeError('replay link failed: ' + r.stdout.decode()[-1500:])
    return exe


def re_sub(s):
    import re
    return re.sub(r'\W', '_', s)
