/* C23 (per-peer slot accounting), E2: note_upload_start / note_upload_end on the real code, maps in the single-key view -- THE
   upload (peer p, chunk c) and THE counter of peer p.  Invariant: counter(p) == [upload (p,c) active] + others, where `others`
   is the (arbitrary) number of p's other active uploads; the counter's entry exists iff that sum is positive.  One step from
   every state satisfying the invariant preserves it, so after any sequence of starts, acknowledgements and timeouts the peer's
   in-use count equals its number of active uploads -- zero once none is outstanding. */
#include "uploads.c"
#include "common.h"
static uint64_t others;   /* ghost: peer p's other active uploads */
static Node *mk(_Bool *a)
{
  Node *n = malloc(sizeof(Node));
  __CPROVER_assume(n != 0 && others <= 1000 && n->active_uploads_.n <= 1 && n->active_uploads_per_peer_.n <= 1);
  *a = n->active_uploads_.n == 1;
  uint64_t sum = (*a ? 1 : 0) + others;
  __CPROVER_assume((n->active_uploads_per_peer_.n == 1) == (sum > 0));
  if (sum > 0) __CPROVER_assume(n->active_uploads_per_peer_.e[0].second == sum);
  __CPROVER_assume(n->peak_active_uploads_ <= 100000 && n->total_completed_uploads_ <= 0xFFFFFFFFFFFFul);
  return n;
}
static void check_inv(Node *n, _Bool a, const char *unused)
{
  uint64_t sum = (a ? 1 : 0) + others;
  __CPROVER_assert((n->active_uploads_.n == 1) == a, "the (peer, chunk) upload is active exactly as expected");
  __CPROVER_assert((n->active_uploads_per_peer_.n == 1) == (sum > 0), "the peer has a counter entry exactly while it has active uploads");
  __CPROVER_assert(sum == 0 || n->active_uploads_per_peer_.e[0].second == sum, "the peer's in-use slot count equals its number of active uploads");
}
void h_start(void)
{
  _Bool a; Node *n = mk(&a);
  Node__PendingUploadRequest in_req; uint64_t in_size;
  Node__note_upload_start(n, &in_req, in_size);
  check_inv(n, 1, "");      /* the upload is active afterwards; a repeated start of the SAME (peer, chunk) must not count twice */
  CANARY_POINT();
}
void h_end(void)
{
  _Bool a; Node *n = mk(&a);
  arr_u8_32 in_peer, in_chunk; _Bool in_ok;
  Node__note_upload_end(n, &in_peer, &in_chunk, in_ok);
  check_inv(n, 0, "");      /* acknowledged or timed out: the upload is gone and its slot released (nothing changes if it was not active) */
  CANARY_POINT();
}
void h_can_dispatch(void)
{
  _Bool a; Node *n = mk(&a);
  arr_u8_32 in_peer;
  __CPROVER_assume(n->config_.upload_max_parallel_transfers == 0);     /* the overall limit counts ALL peers' uploads: outside the single-key view */
  _Bool r = Node__can_dispatch_upload(n, &in_peer);
  uint64_t sum = (a ? 1 : 0) + others, lim = n->config_.upload_max_transfers_per_peer;
  __CPROVER_assert(r == (lim == 0 || sum < lim), "a peer is given another upload only while its in-use count is below the per-peer limit (when that is non-zero)");
  CANARY_POINT();
}
