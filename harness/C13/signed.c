/* C13: decode_signed returns a message exactly when the last 32 bytes verify as the MAC (under the given key) of all
   preceding bytes and those bytes decode.  verify/decode are used through their contracts. */
#include "message.c"
#include "common.h"
void h_decode_signed(void)
{
  uint64_t in_n, in_kn;
  __CPROVER_assume(in_n <= 0x0000FFFFFFFFFFFFul && in_kn <= 0x0000FFFFFFFFFFFFul);
  uint8_t *in_buf = malloc(in_n + 1), *in_key = malloc(in_kn + 1);
  __CPROVER_assume(in_buf && in_key);
  __g_v_calls = 0; __g_d_calls = 0;
  opt_protocol__Message r = protocol__decode_signed((span_u8){in_buf, in_n}, (span_u8){in_key, in_kn});
  if (in_n < 32) {
    __CPROVER_assert(!r.has && __g_v_calls == 0 && __g_d_calls == 0, "shorter than a MAC: rejected without looking further");
  } else {
    __CPROVER_assert(__g_v_calls == 1, "MAC verified exactly once");
    __CPROVER_assert(__g_v_key == in_key && __g_v_keyn == in_kn, "under the caller's key");
    __CPROVER_assert(__g_v_data == in_buf && __g_v_datan == in_n - 32, "over all bytes before the last 32");
    __CPROVER_assert(__g_v_mac == in_buf + (in_n - 32) && __g_v_macn == 32, "against the last 32 bytes");
    if (!__g_v_ret) {
      __CPROVER_assert(!r.has && __g_d_calls == 0, "MAC mismatch: rejected, nothing decoded");
    } else {
      __CPROVER_assert(__g_d_calls == 1 && __g_d_ptr == in_buf && __g_d_n == in_n - 32, "the authenticated bytes (and only those) are decoded");
      __CPROVER_assert(r.has == __g_d_has, "accepted iff they decode");
      __CPROVER_assert(!r.has || (r.v.version == __g_d_version && r.v.type == __g_d_type), "the decoded message is returned");
    }
  }
  CANARY_POINT();
}
