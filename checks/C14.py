from vdriver import Group
META = {'level': 'other', 'assumptions': ['nonce freshness and the ChaCha20 call are not decided here (random draws are arbitrary values; the cipher is C09)']}
def groups(tier):
    K = dict(unit='session_frame', harness='C14/frame.c', backend=['sat', 'cadical'], timeout=300, replay='frame')
    return [Group('frame.header', entry='h_header', unwind=3, kind='unbounded',
                  clause='send / receive_loop (statement slices): the length field is the big-endian 32-bit ciphertext length after the nonce, and the receiver '
                         'reads back exactly that length, for every length below 2^32', **K),
            Group('frame.body', entry='h_body', unwind=26, kind='bounded', bound='ciphertexts of at most 8 bytes',
                  clause='send (statement slice): the ciphertext follows the length field byte-for-byte and the nonce is left as written', **K),
            Group('limit.send', 'session_gate', 'C14/gate.c', entry='h_send_gate', unwind=3, kind='skeleton', checks=[], skeleton=True, timeout=300, backend=['sat', 'cadical'], replay='send',
                  bound='control-flow skeleton (E3) with value tags; loops unrolled twice',
                  clause='send writes a frame only after the payload size was compared with the limit and found not greater'),
            Group('limit.receive', 'session_gate', 'C14/gate.c', entry='h_recv_gate', unwind=3, kind='skeleton', checks=[], skeleton=True, timeout=300, backend=['sat', 'cadical'], replay='recv',
                  bound='control-flow skeleton (E3) with value tags; loops unrolled twice',
                  clause='receive_loop allocates a buffer of the announced length only after comparing it with the limit; an oversized announcement leaves the loop')]
def replay(group, trace):
    """two REAL Nodes over loopback: the size limit on send, delivery in order; an oversized frame header on the wire"""
    import sys, os
    if group.replay not in ('send', 'recv'):
        return None, 'no native replay for this group (the statements are checked on their exact lowering)'
    root = os.path.dirname(os.path.dirname(os.path.abspath(__file__)))
    sys.path.insert(0, os.path.join(root, 'replay'))
    import replaylib as R
    exe = R.build_full('C14.cpp', with_daemon=False)
    rc, out = R.run(exe, [group.replay], timeout=120)
    last = [l for l in out.strip().splitlines() if l.strip() and not l.startswith('[')][-1:] or ['']
    return rc == 1, last[0][:400]
