from vdriver import Group
META = {'level': 'other'}
def groups(tier):
    K = dict(unit='chunkstore', harness='C01/store_gate.c', unwind=3, unwind_by={'reset': 66}, defines=['CHECK_C01'], kind='skeleton', checks=[], skeleton=True, timeout=600, backend=['sat', 'cadical'],
             bound='control-flow skeleton (E3) with value tags; loops unrolled twice')
    G = GROUPS_C01
    E2 = [Group('put_get.e2', 'chunkstore_e2', 'C01/put_get.c', entry='h_put_get', replace=['chunk_id_to_string', 'ChunkStore__wipe_persisted_chunk'],
                unwind=20, kind='unbounded', backend=['cvc5', 'z3', 'sat', 'cadical'], timeout=1800,
                clause='put replaces bytes AND deadline from any prior state of the entry (deadline = now + max(ttl, 1 s), default for ttl <= 0); '
                       'get_record serves exactly those bytes at every instant before the deadline and nothing at or after it (symbolic clock)')] if 'C01' == 'C01' else []
    return [Group(n, entry=e, replay=r, clause=c, **K) for n, e, r, c in G] + E2
GROUPS_C01 = [('get_record.liveness', 'h_get_record', 'listing', 'get_record serves a record only after its deadline was checked and found in the future'),
              ('snapshot.liveness', 'h_snapshot', 'listing', 'snapshot() lists only records whose deadline was checked and found in the future')]
GROUPS_C04 = [('get_record.wipe_before_forget', 'h_get_record', 'wipe', 'a lookup that notices the expiry forgets a persisted record only after wiping its file'),
              ('sweep.wipe_before_forget', 'h_sweep', 'wipe', 'sweep_expired forgets a persisted record only after wiping its file'),
              ('put.overwrite', 'h_put', 'wipe', 'overwriting wipes the previous file before the record is replaced')]


def replay(group, trace):
    """the REAL ChunkStore with persistence and wipe-on-expiry in a scratch directory (1 s TTL)"""
    import sys, os
    root = os.path.dirname(os.path.dirname(os.path.abspath(__file__)))
    sys.path.insert(0, os.path.join(root, 'replay'))
    import replaylib as R
    exe = R.build_full('C01.cpp', with_daemon=False)
    rc, out = R.run(exe, [group.replay], timeout=60)
    lines = [l for l in out.strip().splitlines() if l.startswith('REPRODUCED')] or [l for l in out.strip().splitlines() if l.strip()][-1:]
    return rc == 1, ' | '.join(lines)[:500]
