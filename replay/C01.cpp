// native replay for C01 / C04: the REAL ChunkStore with persistence + wipe-on-expiry in a scratch directory, 1 s TTLs.
//   listing : after the deadline neither get / get_record nor snapshot() may show the chunk (before any sweep)
//   wipe    : expiry first noticed by a LOOKUP: the chunk's file must be gone no later than the next sweep
//   overwrite/live : before the deadline the stored bytes come back; a second put replaces bytes and deadline
// exit 1 = violated on the real code.
#include "ephemeralnet/storage/ChunkStore.hpp"
#include <cstdio>
#include <filesystem>
#include <thread>
#include <csignal>
#include <sys/resource.h>
using namespace ephemeralnet;
using namespace std::chrono;
int main(int argc, char** argv) {
    const std::string scenario = argc > 1 ? argv[1] : "all";
    const auto dir = std::filesystem::temp_directory_path() / ("c01-replay-" + std::to_string(::getpid()));
    std::filesystem::remove_all(dir);
    Config config{};
    config.storage_persistent_enabled = true; config.storage_wipe_on_expiry = true; config.storage_directory = dir.string();
    int rc = 0;
    auto files = [&]() { std::size_t n = 0; if (std::filesystem::exists(dir)) for (const auto& e : std::filesystem::directory_iterator(dir)) { (void)e; ++n; } return n; };
    {
        ChunkStore store(config);
        ChunkId a{}; a[0] = 1;
        store.put(a, ChunkData{1, 2, 3}, seconds(1), {}, false);
        const auto live = store.get(a);
        if (!live.has_value() || *live != ChunkData{1, 2, 3}) { std::printf("REPRODUCED: a live chunk is not read back with its bytes\n"); rc = 1; }
        store.put(a, ChunkData{9, 9}, seconds(1), {}, false);
        const auto again = store.get(a);
        if (!again.has_value() || *again != ChunkData{9, 9}) { std::printf("REPRODUCED: overwriting did not replace the bytes\n"); rc = 1; }
        if (files() != 1) { std::printf("REPRODUCED: %zu files for one live chunk\n", files()); rc = 1; }
        std::this_thread::sleep_for(milliseconds(1150));
        if (scenario == "all" || scenario == "listing") {
            const auto snap = store.snapshot();     // listing BEFORE any sweep or lookup
            if (!snap.empty()) { std::printf("REPRODUCED: snapshot() lists a chunk %.0f ms after its deadline\n", duration<double, std::milli>(steady_clock::now() - snap[0].expires_at).count()); rc = 1; }
        }
        if (store.get(a).has_value()) { std::printf("REPRODUCED: an expired chunk was served by a lookup\n"); rc = 1; }
        if (scenario == "all" || scenario == "wipe") {
            (void)store.sweep_expired();            // "no later than the next cleanup"
            if (files() != 0) { std::printf("REPRODUCED: the expiry was first noticed by a lookup; after the next sweep the chunk's file is still on disk (%zu file)\n", files()); rc = 1; }
        }
    }
    if (scenario == "iofail") {
        // an overwrite pass that FAILS (file size limit -> EFBIG): the expired chunk's file must still be gone after the sweep
        ChunkStore store(config);
        ChunkId b{}; b[0] = 2;
        store.put(b, ChunkData(16384, 7), seconds(1), {}, false);
        std::signal(SIGXFSZ, SIG_IGN);
        rlimit lim{4096, 4096}; setrlimit(RLIMIT_FSIZE, &lim);
        std::this_thread::sleep_for(milliseconds(1150));
        (void)store.sweep_expired();
        if (files() != 0) { std::printf("REPRODUCED: the overwrite pass failed (EFBIG) and the expired chunk's file was left on disk (%zu file)\n", files()); rc = 1; }
    }
    std::filesystem::remove_all(dir);
    if (rc == 0) std::printf("live reads, overwrite, expiry at the deadline, listing and wipe all as required\n");
    return rc;
}
