"""Statement / function lowering (mixin for cxx2c.Lowering)."""
import re
from cxxast import LoweringError, params, body, has_body
from cxxtypes import T, parse_type
from cxx2c_expr import deref, addr


class StmtMixin:
    def flush(self, lines, ind):
        out = [ind + p for p in self.pre]
        self.pre = []
        return out

    def st(self, n, ind='  '):
        """returns list of C lines"""
        k = n.get('kind')
        self.stats['nodes'] += 1
        m = getattr(self, 's_' + k, None)
        if m is not None:
            return m(n, ind)
        # expression statement
        s = self.ex(n)
        out = self.flush([], ind)
        if s and s != '((void)0)':
            out.append(f'{ind}{s};')
        return out

    def block(self, n, ind):
        """statement as a braced block body (list of lines without the braces)"""
        if n.get('kind') == 'CompoundStmt':
            out = []
            for c in n.get('inner', []):
                out += self.st(c, ind)
            return out
        return self.st(n, ind)

    def s_CompoundStmt(self, n, ind):
        return [ind + '{'] + self.block(n, ind + '  ') + [ind + '}']

    def s_ExprWithCleanups(self, n, ind):
        inner = n['inner'][0]
        if getattr(self, 's_' + inner.get('kind', ''), None) is not None:
            return self.st(inner, ind)
        s = self.ex(inner)
        out = self.flush([], ind)
        if s and s != '((void)0)':
            out.append(f'{ind}{s};')
        return out

    def s_NullStmt(self, n, ind):
        return [ind + ';']

    def s_DeclStmt(self, n, ind):
        out = []
        for d in n.get('inner', []):
            k = d.get('kind')
            if k == 'VarDecl':
                out += self.vardecl(d, ind)
            elif k in ('TypeAliasDecl', 'TypedefDecl', 'StaticAssertDecl', 'UsingDecl', 'UsingDirectiveDecl',
                       'CXXRecordDecl'):
                continue
            elif k == 'DecompositionDecl':
                out += self.decomposition(d, ind)
            else:
                raise LoweringError(f'no rule for local declaration {k} in {self.cur["name"]}')
        return out

    def decomposition(self, d, ind):
        """`auto [a, b] = <pair-valued expression>;` : the pair is held in a temporary, a and b name its members"""
        inner = d.get('inner', [])
        binds = [c for c in inner if c.get('kind') == 'BindingDecl']
        inits = [c for c in inner if c.get('kind') != 'BindingDecl']
        if len(binds) != 2 or len(inits) != 1:
            raise LoweringError(f'structured binding with {len(binds)} names in {self.cur["name"]} (only pairs are lowered)')
        t = self.tyof(inits[0]).strip_ref()
        if self.family(t) != 'pair':
            raise LoweringError(f'structured binding over {t!r} in {self.cur["name"]} (only std::pair is lowered)')
        if d.get('type', {}).get('qualType', '').rstrip().endswith('&'):
            raise LoweringError(f'structured binding by reference in {self.cur["name"]} is not lowered')
        v = self.ex(inits[0])
        tmp = self.hoist(t, v)
        out = self.flush([], ind)
        for k, b in enumerate(binds):
            self.cur['locals'][b['id']] = (f'{tmp}.{"first" if k == 0 else "second"}', False)
        return out

    def local_name(self, d):
        name = d['name']
        used = self.cur['names']
        c = name
        i = 1
        while c in used:
            i += 1
            c = f'{name}_{i}'
        used.add(c)
        return c

    def vardecl(self, d, ind):
        tq = (d.get('type', {}).get('desugaredQualType') or d.get('type', {}).get('qualType') or '')
        if re.match(r'(const )?std::(lock_guard|scoped_lock|unique_lock|shared_lock)<', tq):
            return [f'{ind}/* lock object dropped (sequential semantics): {d.get("name")} */']
        t = self.tyof(d)
        name = self.local_name(d)
        isref = t.is_ref()
        inits = [c for c in d.get('inner', []) if c.get('kind') and not c['kind'].endswith('Attr')
                 and not c['kind'].endswith('Comment')]
        if d.get('storageClass') == 'static':
            return self.static_local(d, t, name, inits, ind)
        if inits and self.strip_to_lambda(inits[0]) is not None and t.kind == 'rec':
            lam = self.lambda_fn(self.strip_to_lambda(inits[0]), name=d['name'])
            self.cur['lambdas'][d['id']] = lam
            return []
        self.cur['locals'][d['id']] = (name, isref)
        hoisted = self.cur.get('hoist_locals')
        if isref:
            if not inits:
                raise LoweringError('reference without initialiser')
            s = addr(self.ex(inits[0]))
            out = self.flush([], ind)
            out.append(f'{ind}{self.decl(t, name)} = {s};')
            return out
        if not inits:
            return [f'{ind}{self.decl(t, name)};']
        init = inits[0]
        if t.kind == 'carr':
            s = self.ex(init)
            out = self.flush([], ind)
            if init.get('kind') == 'StringLiteral':
                out.append(f'{ind}{self.decl(t, name)} = {s};')
            else:
                out.append(f'{ind}{self.decl(t, name)} = {s};')
            return out
        core = init
        while core.get('kind') in ('ExprWithCleanups', 'CXXBindTemporaryExpr'):
            core = core['inner'][0]
        if core.get('kind') == 'CXXConstructExpr' and t.kind == 'rec':
            # construct in place (no temporary + copy): the constructor sees the variable's own address
            self.construct_target = name
        s = self.ex(init, want=t)
        self.construct_target = None
        out = self.flush([], ind)
        if s is None:
            out.append(f'{ind}{self.decl(t, name)};')
        elif s == name:
            pass
        else:
            out.append(f'{ind}{self.decl(t, name)} = {s};')
        return out

    def static_local(self, d, t, name, inits, ind):
        g = f'{self.cur["name"]}__{d["name"]}'
        self.cur['locals'][d['id']] = (g, False)
        if not inits:
            self.static_decls.append(f'static {self.decl(t, g)};')
            return []
        s = self.ex(inits[0], want=t)
        pre = self.flush([], ind + '  ')
        self.static_decls.append(f'static {self.decl(t, g)};\nstatic _Bool {g}__init;')
        return [f'{ind}if (!{g}__init) {{'] + pre + [f'{ind}  {g} = {s};', f'{ind}  {g}__init = 1;', f'{ind}}}']

    def s_ReturnStmt(self, n, ind):
        inner = n.get('inner', [])
        if not inner:
            return [f'{ind}return;']
        rt = self.cur['ret']
        e = inner[0]
        if rt.is_ref():
            s = addr(self.ex(e))
        else:
            s = self.ex(e, want=rt)
            s = self.coerce_return(s, e, rt)
        out = self.flush([], ind)
        out.append(f'{ind}return {s};')
        return out

    def coerce_return(self, s, e, rt):
        return s

    def s_IfStmt(self, n, ind):
        inner = n['inner']
        out = []
        idx = 0
        opened = False
        if n.get('hasInit'):
            out.append(ind + '{')
            out += self.st(inner[0], ind + '  ')
            idx = 1
            opened = True
            ind2 = ind + '  '
        else:
            ind2 = ind
        if n.get('hasVar'):
            if not opened:
                out.append(ind + '{')
                opened = True
                ind2 = ind + '  '
            out += self.st(inner[idx], ind2)
            idx += 1
        cond = inner[idx]
        then = inner[idx + 1]
        els = inner[idx + 2] if len(inner) > idx + 2 else None
        if n.get('isConstexpr'):
            cv = cond
            while cv.get('kind') in ('ImplicitCastExpr', 'ParenExpr') and 'value' not in cv:
                cv = cv['inner'][0]
            val = cv.get('value')
            if val not in ('true', 'false', True, False, '1', '0'):
                raise LoweringError(f'if constexpr with unevaluated condition in {self.cur["name"]}')
            taken = then if val in ('true', True, '1') else els
            if taken is None or not taken.get('kind'):
                return out + ([ind + '}'] if opened else [])
            out += [ind2 + '{'] + self.block(taken, ind2 + '  ') + [ind2 + '}']
            if opened:
                out.append(ind + '}')
            return out
        c = self.ex(cond)
        out += self.flush([], ind2)
        out.append(f'{ind2}if ({c}) {{')
        out += self.block(then, ind2 + '  ')
        if els is not None:
            out.append(f'{ind2}}} else {{')
            out += self.block(els, ind2 + '  ')
        out.append(f'{ind2}}}')
        if opened:
            out.append(ind + '}')
        return out

    def loop_contract(self, ind):
        k = self.cur['loops']
        self.cur['loops'] += 1
        self.stats['loops'] += 1
        spec = self.cur.get('spec')
        lines = []
        has = bool(spec and k in spec['loops'])
        self.cur['loop_marker'] = f' /*@L:{self.cur["name"]}:{k}:{"C" if has else "N"}*/'
        if has:
            lines = [ind + l.strip() for l in spec['loops'][k] if l.strip()]
            self.cur['loops_with_contract'].append(k)
        ghost = spec.get('loopbody', {}).get(k, []) if spec else []
        self.cur['loop_open'] = [ind + '{'] + [ind + '  ' + l.strip() + ' /* ghost */' for l in ghost if l.strip()]
        return lines

    def cond_in_loop(self, cond, ind):
        """loop condition that needs prelude statements -> not supported (fail closed)"""
        c = self.ex(cond)
        if self.pre:
            raise LoweringError(f'loop condition needs temporaries in {self.cur["name"]}: {self.pre}')
        return c

    def s_WhileStmt(self, n, ind):
        cond, bodyn = n['inner'][-2], n['inner'][-1]
        c = self.cond_in_loop(cond, ind)
        lc = self.loop_contract(ind)
        mk = self.cur['loop_marker']
        op = self.cur['loop_open']
        return [f'{ind}while ({c}){mk}'] + lc + op + self.block(bodyn, ind + '  ') + [ind + '}']

    def s_DoStmt(self, n, ind):
        bodyn, cond = n['inner']
        lc = self.loop_contract(ind)
        mk = self.cur['loop_marker']
        op = self.cur['loop_open']
        b = self.block(bodyn, ind + '  ')
        c = self.cond_in_loop(cond, ind)
        return [f'{ind}do{mk}'] + lc + op + b + [f'{ind}}} while ({c});{mk}']

    def s_ForStmt(self, n, ind):
        init, condvar, cond, inc, bodyn = n['inner']
        out = [ind + '{']
        i2 = ind + '  '
        if init.get('kind'):
            out += self.st(init, i2)
        c = self.cond_in_loop(cond, i2) if cond.get('kind') else '1'
        incs = ''
        if inc.get('kind'):
            incs = self.ex(inc)
            if self.pre:
                raise LoweringError(f'for-increment needs temporaries in {self.cur["name"]}')
        lc = self.loop_contract(i2)
        out.append(f'{i2}for (; {c}; {incs}){self.cur["loop_marker"]}')
        out += lc
        out += self.cur['loop_open']
        out += self.block(bodyn, i2 + '  ')
        out.append(i2 + '}')
        out.append(ind + '}')
        return out

    def s_CXXForRangeStmt(self, n, ind):
        inner = n['inner']
        # [init, rangeDecl, beginDecl, endDecl, cond, inc, loopVarDecl, body]
        rangedecl = inner[1]['inner'][0]
        loopvar = inner[6]['inner'][0]
        bodyn = inner[7]
        rinit = [c for c in rangedecl.get('inner', []) if 'kind' in c][0]
        rt = self.tyof(rinit)
        fam = self.family(rt)
        out = [ind + '{']
        i2 = ind + '  '
        if inner[0].get('kind'):
            out += self.st(inner[0], i2)
        rs = self.ex(rinit)
        out += self.flush([], i2)
        # names are derived from the loop's source ordinal so that loop contracts can mention them stably
        rname = f'__range{self.cur["loops"]}'
        ct = self.ctype(rt.strip_ref())
        if rinit.get('valueCategory') == 'prvalue':
            out.append(f'{i2}{ct} {rname}__v = {rs};')
            out.append(f'{i2}{ct} *{rname} = &{rname}__v;')
        else:
            out.append(f'{i2}{ct} *{rname} = {addr(rs)};')
        idx = f'__idx{self.cur["loops"]}'
        if fam == 'array':
            size = f'{rt.strip_ref().args[1].n}ul'
            elem = f'{rname}->_[{idx}]'
            et = rt.strip_ref().args[0]
        elif fam in ('vector', 'span', 'string', 'strview'):
            size = f'{rname}->n'
            elem = f'{rname}->p[{idx}]'
            et = rt.strip_ref().args[0]
        elif fam == 'map':
            size = f'{rname}->n'
            elem = f'{rname}->e[{idx}]'
            et = None
        elif rt.strip_ref().kind == 'carr':
            size = f'{rt.strip_ref().n}ul'
            elem = f'(*{rname})[{idx}]'
            raise LoweringError('range-for over C array')
        else:
            raise LoweringError(f'range-for over {rt!r}')
        out.append(f'{i2}uint64_t {idx} = 0;')
        lc = self.loop_contract(i2)
        out.append(f'{i2}for (; {idx} < {size}; ++{idx}){self.cur["loop_marker"]}')
        out += lc
        out += self.cur['loop_open']
        i3 = i2 + '  '
        lt = self.tyof(loopvar)
        if loopvar.get('kind') == 'DecompositionDecl':
            raise LoweringError('structured binding in range-for')
        lname = self.local_name(loopvar)
        self.cur['locals'][loopvar['id']] = (lname, lt.is_ref())
        if lt.is_ref() and fam == 'map':
            # the entry type of the single-key view and the pair type of the loop variable have the same layout (first, second)
            out.append(f'{i3}{self.decl(lt, lname)} = ({self.ctype(lt)})&{elem};')
        elif lt.is_ref():
            out.append(f'{i3}{self.decl(lt, lname)} = &{elem};')
        else:
            out.append(f'{i3}{self.decl(lt, lname)} = {elem};')
        out += self.block(bodyn, i3)
        out.append(i2 + '}')
        out.append(ind + '}')
        return out

    def s_BreakStmt(self, n, ind):
        return [ind + 'break;']

    def s_ContinueStmt(self, n, ind):
        return [ind + 'continue;']

    def s_SwitchStmt(self, n, ind):
        inner = [c for c in n['inner'] if c.get('kind')]
        cond, bodyn = inner[-2], inner[-1]
        c = self.ex(cond)
        out = self.flush([], ind)
        out.append(f'{ind}switch ({c}) {{')
        for s in bodyn.get('inner', []):
            out += self.st(s, ind + '  ')
        out.append(ind + '}')
        return out

    def s_CaseStmt(self, n, ind):
        inner = n['inner']
        v = self.ex(inner[0])
        out = [f'{ind}case {v}:']
        for c in inner[1:]:
            if c.get('kind'):
                out += self.st(c, ind + '  ')
        return out

    def s_DefaultStmt(self, n, ind):
        out = [f'{ind}default:']
        for c in n['inner']:
            out += self.st(c, ind + '  ')
        return out

    # ---------------------------------------------------------------- exceptions
    def s_CXXThrowExpr(self, n, ind):
        from cxx2c import EXC
        inner = n.get('inner', [])
        if not inner:
            # rethrow
            return [f'{ind}__exc = __caught; {self.unwind_stmt()}']
        t = self.throw_type(inner[0])
        if t not in EXC:
            raise LoweringError(f'throw of unlisted exception type {t}')
        self.cur['maythrow'] = True
        self.cur['throws'].add(t)
        return [f'{ind}{{ __exc = {EXC[t]}; {self.unwind_stmt()} }}']

    def throw_type(self, e):
        ty = e.get('type', {}).get('qualType', '')
        ty = ty.replace('const ', '').strip()
        return ty

    def e_CXXThrowExpr(self, n):
        raise LoweringError('throw inside an expression')

    def s_CXXTryStmt(self, n, ind):
        from cxx2c import EXC
        inner = n['inner']
        tryblock = inner[0]
        handlers = inner[1:]
        label = self.tmp('__catch')
        self.cur['try'].append(label)
        out = [ind + '{']
        out += self.block(tryblock, ind + '  ')
        self.cur['try'].pop()
        done = self.tmp('__try_done')
        out.append(f'{ind}  goto {done};')
        out.append(f'{ind}  {label}: ;')
        # dispatch
        out.append(f'{ind}  {{ int __caught = __exc;')
        first = True
        for h in handlers:
            hin = h['inner']
            var = hin[0] if hin[0].get('kind') == 'VarDecl' else None
            hb = hin[-1]
            if var is not None:
                tn = var['type']['qualType'].replace('const ', '').replace('&', '').strip()
                kinds = self.exc_subtypes(tn)
                cond = ' || '.join(f'__caught == {k}' for k in kinds)
                self.cur['locals'][var['id']] = ('__caught', False)
            else:
                cond = '1'
            out.append(f'{ind}  {"if" if first else "else if"} ({cond}) {{ __exc = 0;')
            out += self.block(hb, ind + '    ')
            out.append(f'{ind}  }}')
            first = False
        out.append(f'{ind}  else {{ {self.unwind_stmt()} }}')
        out.append(f'{ind}  }}')
        out.append(f'{ind}  {done}: ;')
        out.append(ind + '}')
        return out

    def exc_subtypes(self, tn):
        from cxx2c import EXC
        H = {'std::exception': list(EXC.keys()),
             'std::logic_error': ['std::logic_error', 'std::invalid_argument', 'std::length_error', 'std::out_of_range',
                                  'std::domain_error'],
             'std::runtime_error': ['std::runtime_error', 'std::system_error', 'std::filesystem::filesystem_error',
                                    'std::overflow_error', 'std::range_error']}
        names = H.get(tn, [tn])
        if tn not in EXC:
            raise LoweringError(f'catch of unlisted type {tn}')
        return [EXC[x] for x in names]

    # ---------------------------------------------------------------- functions
    def request_fn(self, cid):
        """allocate a C name for function with canonical decl id cid and queue it"""
        decl = self.ix.by_id[cid]
        q = self.ix.qname.get(cid)
        if q is None:
            q = self.ix.qname.get(self.defnodes.get(cid, {}).get('id'))
        if q is None:
            raise LoweringError(f'function {decl.get("name")} has no qualified name')
        from cxx2c import mangle
        base = mangle(q)
        if decl.get('kind') == 'CXXConstructorDecl':
            base += '__ctor'
        peers = self.name_peers.setdefault(base, [])
        if cid not in peers:
            peers.append(cid)
        cname = base if peers.index(cid) == 0 else f'{base}_{peers.index(cid)}'
        self.fnmap[cid] = cname
        self.queue.append(cid)
        return cname

    def fn_signature(self, cid, cname):
        decl = self.defnodes.get(cid) or self.ix.by_id[cid]
        ft = decl['type']['qualType']
        kind = decl.get('kind')
        rett = T('prim', 'void')
        if kind not in ('CXXConstructorDecl', 'CXXDestructorDecl'):
            fty = self.resolve(parse_type(decl['type'].get('desugaredQualType') or ft))
            if fty.kind != 'func':
                raise LoweringError(f'{cname}: not a function type: {ft}')
            rett = fty.sub
        ps = []
        if kind in ('CXXMethodDecl', 'CXXConstructorDecl', 'CXXDestructorDecl', 'CXXConversionDecl') and \
                self.ix.by_id[cid].get('storageClass') != 'static':
            par = self.ix.by_id.get(self.ix.by_id[cid].get('parentDeclContextId')) if 'parentDeclContextId' in self.ix.by_id[cid] else None
            cls = self.class_of(cid)
            ps.append(f'{self.record(cls)} *self')
        plist = []
        for i, p in enumerate(params(decl)):
            pt = self.tyof(p)
            pname = p.get('name') or f'__p{i}'
            plist.append((p, pt, pname))
            ps.append(self.decl(pt, pname) if pt.kind != 'carr' else f'{self.ctype(pt.sub)} *{pname}')
        sig = f'{self.ctype(rett)} {cname}({", ".join(ps) or "void"})'
        return sig, rett, plist

    def class_of(self, cid):
        q = self.ix.qname[cid]
        return '::'.join(q.split('::')[:-1])

    def lower_fn(self, cid, define=True):
        cname = self.fnmap[cid]
        decl = self.defnodes.get(cid)
        spec = self.fn_spec(cid)
        sig, rett, plist = self.fn_signature(cid, cname)
        contract = []
        if spec:
            contract = [l for l in spec['contract'] if l.strip()]
        info = {'name': cname, 'qname': self.ix.qname[cid], 'ret': rett, 'loops': 0, 'locals': {}, 'try': [],
                'names': set(['self']), 'calls': set(), 'maythrow': False, 'throws': set(), 'spec': spec,
                'loops_with_contract': [], 'lambdas': {}, 'has_body': False, 'contract': bool(contract),
                'line': (decl or self.ix.by_id[cid]).get('loc', {}).get('line')}
        self.fninfo[cname] = info
        if decl is None or not define or not has_body(decl):
            if spec and 'throws' in spec['flags']:
                info['maythrow'] = True
            self.protos.append(sig + ('\n' + '\n'.join(contract) if contract else '') + ';')
            stub = contract_stub(cname, self.ctype(rett), contract) if contract else None
            if stub:
                # a function that is only declared here (its body is outside the unit): groups that ask for -DCXX_STUB_<fn> get
                # its contract as the body instead of goto-instrument's replacement
                self.bodies.append((cname + '__stub', f'#ifdef CXX_STUB_{cname}\n{sig}\n{stub}#endif\n'))
            return info
        info['has_body'] = True
        def local_records(n):
            # record types declared inside the function body are not in the name index: register them by their plain name
            if n.get('kind') == 'CXXRecordDecl' and n.get('completeDefinition') and n.get('name') and n.get('id') not in self.ix.qname:
                self.ix.qname[n['id']] = n['name']
                self.ix.defs.setdefault(n['name'], []).append(n)
            for c in n.get('inner', []):
                local_records(c)
        local_records(body(decl))
        if self.spec.options.get('ast_errors') == 'tolerate':
            def no_errors(n):
                if n.get('containsErrors') or n.get('kind') == 'RecoveryExpr':
                    raise LoweringError(f'{cname}: clang reported an error inside this function (error-recovery node in its AST)')
                for c in n.get('inner', []):
                    no_errors(c)
            no_errors(decl)
        saved = self.cur
        self.cur = info
        for p, pt, pname in plist:
            info['locals'][p['id']] = (pname, pt.is_ref())
            info['names'].add(pname)
        lines = []
        if spec and spec['pre']:
            lines += ['  /* ghost (spec @entry) */'] + ['  ' + l.strip() for l in spec['pre'] if l.strip()]
        if decl.get('kind') == 'CXXConstructorDecl':
            lines += self.ctor_inits(decl)
        b = body(decl)
        if b.get('kind') == 'CXXTryStmt':
            lines += self.st(b, '  ')
        else:
            lines += self.block(b, '  ')
        self.cur = saved
        self.protos.append(sig + ';')
        text = sig + '\n' + ('\n'.join(contract) + '\n' if contract else '')
        stub = contract_stub(cname, self.ctype(rett), contract) if contract else None
        if stub:
            text += f'#ifdef CXX_STUB_{cname}\n{stub}#else\n' + '{\n' + '\n'.join(lines) + '\n}\n#endif\n'
        else:
            text += '{\n' + '\n'.join(lines) + '\n}\n'
        text += contract_macros(cname, contract)
        self.bodies.append((cname, text))
        self.stats['functions'] += 1
        if spec:
            missing = set(spec['loops']) - set(info['loops_with_contract'])
            if missing:
                raise LoweringError(f'{cname}: spec has contracts for loops {sorted(missing)} but the function has '
                                    f'{info["loops"]} loops')
        return info

    def ctor_inits(self, decl):
        lines = []
        cls = self.record(self.class_of(self.canon(decl['id'])))
        fields = {f[0]: f for f in self.record_fields[cls]}
        inited = set()
        for c in decl.get('inner', []):
            if c.get('kind') != 'CXXCtorInitializer':
                continue
            if 'anyInit' not in c:
                raise LoweringError('base/delegating constructor initialiser')
            fname = c['anyInit']['name']
            if fname not in fields:
                continue   # field dropped by a fields: option
            ft = fields[fname][1]
            e = c['inner'][0]
            if e.get('kind') == 'CXXDefaultInitExpr' and not e.get('inner'):
                s = self.field_default(fields[fname][2], ft)
            else:
                s = self.ex(e, want=ft)
            lines += self.flush([], '  ')
            if s is None:
                continue
            if e.get('kind') == 'InitListExpr' and ft.kind == 'carr':
                raise LoweringError('C array member initialiser')
            lines.append(f'  self->{fname} = {s};')
            inited.add(fname)
        return lines

    def lower_slice(self, fname, sname, from_var, until_kind, until_name, from_kind='from_decl'):
        """A contiguous statement range of a (large) function, lowered as a function of its own: <function>__slice_<name>.
        The range starts at the declaration of `from_var` and ends before the first later statement of the same block that
        refers to a variable / member / function named `until_name` (until_ref), or with the declaration of `until_name`
        (until_decl).  Every variable of the enclosing function that the range uses becomes a pointer parameter (in alphabetical
        order of their names), `this` becomes `self`; the value of `from_var` (until_ref) or `until_name` (until_decl) at the end is returned.
        Must-fire: exactly one such declaration and an end statement must exist."""
        from cxx2c import mangle
        cids = self.find_fn(fname, want_body=True)
        if len(cids) != 1:
            raise LoweringError(f'@slice {fname}: {len(cids)} definitions')
        cid = cids[0]
        fdecl = self.defnodes[cid]
        found = []

        def local_records(n):
            # record types declared inside the function body are not in the name index: register them by their plain name
            if n.get('kind') == 'CXXRecordDecl' and n.get('completeDefinition') and n.get('name') and n.get('id') not in self.ix.qname:
                self.ix.qname[n['id']] = n['name']
                self.ix.defs.setdefault(n['name'], []).append(n)
            for c in n.get('inner', []):
                local_records(c)
        local_records(body(fdecl))

        def declares(stmt, var):
            return stmt.get('kind') == 'DeclStmt' and any(d.get('kind') == 'VarDecl' and d.get('name') == var for d in stmt.get('inner', []))

        def refers(n, name):
            if n.get('kind') == 'DeclRefExpr' and n.get('referencedDecl', {}).get('name') == name:
                return True
            if n.get('kind') == 'MemberExpr' and n.get('name') == name:
                return True
            return any(refers(c, name) for c in n.get('inner', []))

        def walk(n):
            if n.get('kind') == 'CompoundStmt':
                kids = n.get('inner', [])
                for i, c in enumerate(kids):
                    if (from_kind == 'from_decl' and declares(c, from_var)) or \
                            (from_kind == 'from_ref' and refers(c, from_var) and not any(refers(p, from_var) for p in kids[:i])
                             and not any(k.get('kind') == 'CompoundStmt' and refers(k, from_var) for k in [c])):
                        found.append((kids, i))
            for c in n.get('inner', []):
                walk(c)
        walk(body(fdecl))
        if from_kind == 'from_ref' and found:
            found = found[:1]      # the outermost statement that refers to the name (pre-order walk: enclosing blocks first)
        if len(found) != 1:
            raise LoweringError(f'@slice {fname} {sname}: {len(found)} declarations of {from_var} (renamed or removed?)')
        kids, start = found[0]
        end = None
        for j in range(start + 1, len(kids)):
            if until_kind == 'until_ref' and refers(kids[j], until_name):
                end = j
                break
            if until_kind == 'until_decl' and declares(kids[j], until_name):
                end = j + 1
                break
        if until_kind == 'until_decl' and from_var == until_name:
            end = start + 1
        if end is None:
            raise LoweringError(f'@slice {fname} {sname}: no statement after the declaration of {from_var} matches {until_kind} {until_name}')
        stmts = kids[start:end]
        declared, free, uses_this = set(), [], [False]

        def scan(n):
            if n.get('kind') in ('VarDecl', 'BindingDecl', 'ParmVarDecl') and n.get('id'):
                declared.add(n['id'])
            if n.get('kind') == 'CXXThisExpr':
                uses_this[0] = True
            if n.get('kind') == 'DeclRefExpr':
                rd = n.get('referencedDecl', {})
                if rd.get('kind') in ('VarDecl', 'ParmVarDecl', 'BindingDecl') and rd.get('id') in self.ix.by_id \
                        and rd['id'] not in declared and rd['id'] not in [f[0] for f in free] and self.inside(fdecl, rd['id']):
                    free.append((rd['id'], self.ix.by_id[rd['id']]))
            for c in n.get('inner', []):
                scan(c)
        for st in stmts:
            scan(st)
        # parameters in alphabetical order of the variables' names: the signature does not depend on the order in which the range happens
        # to use them (a harness passes them by position)
        free.sort(key=lambda f: f[1].get('name') or '')
        ret_name = from_var if until_kind == 'until_ref' else until_name
        if from_kind == 'from_ref' and until_kind == 'until_ref':
            ret_name = None      # a range that starts at a statement (e.g. a loop): no value is returned, effects go through the pointer parameters
        ret_node = None
        for st in stmts:
            for d in st.get('inner', []) if st.get('kind') == 'DeclStmt' else []:
                if d.get('kind') == 'VarDecl' and d.get('name') == ret_name:
                    ret_node = d
        if ret_node is None and ret_name is not None:
            raise LoweringError(f'@slice {fname} {sname}: the returned variable {ret_name} is not declared inside the range')
        rett = self.tyof(ret_node).strip_ref() if ret_node is not None else parse_type('void')
        cname = f'{mangle(self.ix.qname.get(cid) or fname)}__slice_{sname}'
        spec = self.spec.fn.get(cname)
        if spec:
            self.spec_used.add(cname)
        contract = [l for l in spec['contract'] if l.strip()] if spec else []
        info = {'name': cname, 'qname': cname, 'ret': rett, 'loops': 0, 'locals': {}, 'try': [], 'names': set(['self']), 'calls': set(),
                'maythrow': False, 'throws': set(), 'spec': spec, 'loops_with_contract': [], 'lambdas': {}, 'has_body': True,
                'contract': bool(contract), 'line': stmts[0].get('range', {}).get('begin', {}).get('line'), 'captures': {}}
        ps = []
        if uses_this[0]:
            ps.append(f'{self.record(self.class_of(cid))} *self')
        for vid, vnode in free:
            vt = self.tyof(vnode).strip_ref()
            pname = vnode.get('name') or f'__v{len(ps)}'
            ps.append(f'{self.ctype(vt)} *{pname}' if vt.kind != 'carr' else f'{self.ctype(vt.sub)} *{pname}')
            info['locals'][vid] = (pname, vt.kind != 'carr')
            info['names'].add(pname)
        sig = f'{self.ctype(rett)} {cname}({", ".join(ps) or "void"})'
        saved = (self.cur, self.pre, self.cond_depth)
        self.cur, self.pre, self.cond_depth = info, [], 0
        lines = []
        for st in stmts:
            lines += self.st(st, '  ')
        if ret_node is not None:
            rl = info['locals'].get(ret_node['id'])
            lines.append(f'  return {rl[0] if rl else ret_name};')
        self.cur, self.pre, self.cond_depth = saved
        self.fninfo[cname] = info
        self.protos.append(sig + ';')
        text = sig + '\n' + ('\n'.join(contract) + '\n' if contract else '') + '{\n' + '\n'.join(lines) + '\n}\n'
        text += contract_macros(cname, contract)
        self.bodies.append((cname, text))
        self.stats['functions'] += 1
        if info['maythrow']:
            self.maythrow.add(cname)

    def inside(self, fdecl, vid):
        """is the declaration with id vid located inside function fdecl (parameter or local)?"""
        def has(n):
            if n.get('id') == vid and n.get('kind', '').endswith('Decl'):
                return True
            return any(has(c) for c in n.get('inner', []))
        return has(fdecl)

    def fn_spec(self, cid):
        q = self.ix.qname[cid]
        for name, sp in self.spec.fn.items():
            nm = name.split('/')[0]
            if q == nm or q.endswith('::' + nm) or re.sub(r'^ephemeralnet::', '', q) == nm:
                if '/' in name:
                    d = self.defnodes.get(cid) or self.ix.by_id[cid]
                    if len(params(d)) != int(name.split('/')[1]):
                        continue
                self.spec_used.add(name)
                return sp
        return None

    # ---------------------------------------------------------------- globals
    def lower_global(self, node):
        from cxx2c import mangle
        gid = node['id']
        q = self.ix.qname.get(gid) or node['name']
        cname = mangle(q)
        self.global_names[gid] = cname
        t = self.tyof(node)
        inits = [c for c in node.get('inner', []) if 'kind' in c and c['kind'] not in ('FullComment',)]
        saved = (self.cur, self.pre)
        self.cur = {'name': cname, 'locals': {}, 'ret': T('prim', 'void'), 'try': [], 'names': set(), 'loops': 0,
                    'calls': set(), 'lambdas': {}}
        self.pre = []
        const = 'const ' if (node.get('constexpr') or t.const) else ''
        if inits:
            val = None
            if t.kind == 'prim' or self.family(t) == 'enum':
                val = self.consteval(inits[0])
            if val is not None:
                s = str(val)
            else:
                s = self.ex(inits[0], want=t)
            s = self.static_init(s)
            if self.pre:
                raise LoweringError(f'global {q} needs dynamic initialisation')
            self.globals_c.append(f'static {const}{self.decl(t, cname)} = {s};')
        else:
            self.globals_c.append(f'static {self.decl(t, cname)};')
        self.cur, self.pre = saved
        return cname

    def static_init(self, s):
        # compound literals are not constant initialisers: strip the leading cast of the outermost literal
        m = re.match(r'^\(\((\w+)\)(\{.*\})\)$', s, re.S)
        if m:
            return m.group(2)
        return s

    def consteval(self, n):
        """integer value of a constant initialiser if clang recorded it"""
        k = n.get('kind')
        if k == 'ConstantExpr' and 'value' in n:
            return n['value']
        if k == 'IntegerLiteral':
            return self.e_IntegerLiteral(n)
        if k in ('ImplicitCastExpr', 'ExprWithCleanups', 'ParenExpr', 'CXXFunctionalCastExpr', 'CXXStaticCastExpr') \
                and n.get('castKind') in (None, 'IntegralCast', 'NoOp'):
            return self.consteval(n['inner'][0])
        return None

    # ---------------------------------------------------------------- lambdas
    def lambda_instantiations(self, lam):
        """instantiations of a generic lambda's operator() (as separate static functions)"""
        rec = lam['inner'][0]
        out = []
        for c in rec.get('inner', []):
            if c.get('kind') == 'FunctionTemplateDecl' and c.get('name') == 'operator()':
                k = 0
                for m in c.get('inner', []):
                    if m.get('kind') == 'CXXMethodDecl' and any(x.get('kind') == 'TemplateArgument' for x in m.get('inner', [])):
                        out.append(self.lambda_fn(lam, name=f'inst{k}', call=m))
                        k += 1
        if not out:
            raise LoweringError('generic lambda without instantiations')
        return out

    def lambda_fn(self, lam, name=None, call=None):
        """lower a lambda to a static function; captures by reference become pointer parameters"""
        key = call['id'] if call is not None else lam['id']
        if key in self.lambdas:
            return self.lambdas[key]
        rec = lam['inner'][0]
        if call is None:
            for c in rec.get('inner', []):
                if c.get('kind') == 'CXXMethodDecl' and c.get('name') == 'operator()':
                    call = c
        if call is None:
            raise LoweringError('generic lambda (templated operator()) is not lowered')
        caps = [c for c in rec.get('inner', []) if c.get('kind') == 'FieldDecl']
        self.lamn = getattr(self, 'lamn', 0) + 1
        outer = self.cur['name'] if self.cur else 'global'
        cname = f'{outer}__lambda_{name or self.lamn}'
        fty = self.resolve(parse_type(call['type'].get('desugaredQualType') or call['type']['qualType']))
        rett = fty.sub
        info = {'name': cname, 'qname': cname, 'ret': rett, 'loops': 0, 'locals': {}, 'try': [],
                'names': set(), 'calls': set(), 'maythrow': False, 'throws': set(),
                'spec': self.spec.fn.get(cname), 'loops_with_contract': [], 'lambdas': {}, 'has_body': True,
                'contract': False, 'captures': {}, 'line': lam.get('range', {}).get('begin', {}).get('line')}
        # captured variables: find DeclRefExprs that refer to outer locals
        outer_locals = dict(self.cur['locals']) if self.cur else {}
        outer_caps = dict(self.cur.get('captures', {})) if self.cur else {}
        used = []
        self.find_outer_refs(body(call), outer_locals, outer_caps, used, set(p['id'] for p in params(call)))
        ps = []
        capargs = []
        uses_this = self.uses_this(body(call))
        if uses_this:
            ps.append(f'{self.ctype(self.cur["self_type"])} *self' if self.cur.get('self_type') else None)
            raise LoweringError('lambda capturing this')
        for vid, (oname, isref) in used:
            vnode = self.ix.by_id.get(vid)
            vt = self.tyof(vnode).strip_ref()
            pname = f'__cap_{vnode["name"]}'
            ps.append(f'{self.ctype(vt)} *{pname}')
            info['captures'][vid] = f'(*{pname})'
            capargs.append(oname if isref else f'&{oname}')
        for i, p in enumerate(params(call)):
            pt = self.tyof(p)
            pname = p.get('name') or f'__p{i}'
            info['locals'][p['id']] = (pname, pt.is_ref())
            info['names'].add(pname)
            ps.append(self.decl(pt, pname))
        sig = f'static {self.ctype(rett)} {cname}({", ".join(ps) or "void"})'
        saved = (self.cur, self.pre, self.cond_depth)
        self.cur, self.pre, self.cond_depth = info, [], 0
        lines = self.block(body(call), '  ')
        self.cur, self.pre, self.cond_depth = saved
        spec = info['spec']
        contract = [l for l in spec['contract'] if l.strip()] if spec else []
        if spec:
            self.spec_used.add(cname)
        self.fninfo[cname] = info
        self.protos.append(sig + ';')
        self.bodies.append((cname, sig + '\n' + ('\n'.join(contract) + '\n' if contract else '') + '{\n' + '\n'.join(lines) + '\n}\n'))
        self.stats['functions'] += 1
        res = {'cname': cname, 'captures': capargs, 'info': info, 'ret': rett, 'ptypes': [self.tyof(p) for p in params(call)]}
        self.lambdas[key] = res
        if info['maythrow']:
            self.maythrow.add(cname)
        return res

    def find_outer_refs(self, n, outer_locals, outer_caps, used, own):
        if n.get('kind') == 'DeclRefExpr':
            rd = n['referencedDecl']
            if rd['kind'] in ('VarDecl', 'ParmVarDecl') and rd['id'] in outer_locals and rd['id'] not in own:
                if rd['id'] not in [u[0] for u in used]:
                    used.append((rd['id'], outer_locals[rd['id']]))
        for c in n.get('inner', []):
            self.find_outer_refs(c, outer_locals, outer_caps, used, own)

    def uses_this(self, n):
        if n.get('kind') == 'CXXThisExpr':
            return True
        return any(self.uses_this(c) for c in n.get('inner', []))

    def e_LambdaExpr(self, n):
        raise LoweringError(f'lambda used as a value in {self.cur["name"]} (only direct calls / modelled algorithms)')


def contract_clauses(contract):
    import re as _re
    txt = _re.sub(r'/\*.*?\*/', ' ', '\n'.join(contract), flags=_re.S)
    out = {'requires': [], 'ensures': [], 'assigns': []}
    for kind in out:
        for m in _re.finditer(r'__CPROVER_' + kind + r'\s*\(', txt):
            depth, i = 1, m.end()
            while depth and i < len(txt):
                depth += {'(': 1, ')': -1}.get(txt[i], 0)
                i += 1
            out[kind].append(' '.join(txt[m.end():i - 1].split()))
    return out


def split_top(s, sep=','):
    out, depth, cur = [], 0, ''
    for ch in s:
        if ch in '([{':
            depth += 1
        if ch in ')]}':
            depth -= 1
        if ch == sep and depth == 0:
            out.append(cur.strip())
            cur = ''
        else:
            cur += ch
    if cur.strip():
        out.append(cur.strip())
    return out


def contract_stub(cname, ret_c, contract):
    """the body that stands for a call when a group asks for -DCXX_STUB_<fn>: the contract applied the way
    --replace-call-with-contract applies it (precondition ASSERTED, assigns targets havocked, postcondition ASSUMED), generated
    from the verbatim clause text.  dfcc's own replacement instruments every assignment of the whole program with write-set
    checks, which made symbolic execution of units with ~10^3 replaced calls take minutes; the stub leaves the caller's code
    uninstrumented.  Only contracts whose assigns targets are plain lvalues are expressible; others get an #error body."""
    import re as _re
    c = contract_clauses(contract)
    text = ' '.join(c['requires'] + c['ensures'] + c['assigns'])
    bad = [k for k in ('__CPROVER_is_fresh', '__CPROVER_object_whole', '__CPROVER_object_from', '__CPROVER_object_upto',
                       '__CPROVER_was_freed', '__CPROVER_freeable') if k in text]
    targets = [t for a in c['assigns'] for t in split_top(a)]
    if any(':' in t for t in targets):
        bad.append('conditional assigns target')
    if bad:
        return f'{{\n#error "contract stub for {cname} is not expressible: {", ".join(bad)}"\n}}\n'
    L = ['{']
    conj = lambda cs: ' && '.join('(' + x + ')' for x in cs) or '1'
    L.append(f'  __CPROVER_assert({conj(c["requires"])}, "contract stub {cname}: precondition of the replaced call");')
    ens = conj(c['ensures'])
    k = 0
    while '__CPROVER_old(' in ens:
        i = ens.index('__CPROVER_old(')
        depth, j = 1, i + len('__CPROVER_old(')
        while depth:
            depth += {'(': 1, ')': -1}.get(ens[j], 0)
            j += 1
        e = ens[i + len('__CPROVER_old('):j - 1]
        L.append(f'  __typeof__({e}) __old{k} = ({e});')
        ens = ens[:i] + f'__old{k}' + ens[j:]
        k += 1
    for n, t in enumerate(targets):
        L.append(f'  {{ __typeof__({t}) __h{n}; ({t}) = __h{n}; }}   /* assigns target havocked */')
    if ret_c != 'void':
        L.append(f'  {ret_c} __ret;   /* arbitrary */')
        ens = _re.sub(r'\b__CPROVER_return_value\b', '__ret', ens)
    L.append(f'  __CPROVER_assume({ens});')
    if ret_c != 'void':
        L.append('  return __ret;')
    L.append('}')
    return '\n'.join(L) + '\n'


def contract_macros(cname, contract):
    """the requires / ensures clauses of a contract, verbatim, as two macros over the parameter names -- lets a plain
    (non-dfcc) harness assume/assert exactly the text that goto-instrument enforces, without a hand copy"""
    if not contract:
        return ''
    import re as _re
    txt = _re.sub(r'/\*.*?\*/', ' ', '\n'.join(contract), flags=_re.S)
    out = {'requires': [], 'ensures': []}
    for kind in out:
        for m in _re.finditer(r'__CPROVER_' + kind + r'\s*\(', txt):
            depth, i = 1, m.end()
            while depth and i < len(txt):
                depth += {'(': 1, ')': -1}.get(txt[i], 0)
                i += 1
            out[kind].append(' '.join(txt[m.end():i - 1].split()))
    def conj(cs):
        return ' && '.join('(' + c + ')' for c in cs) or '1'
    return (f'#define CONTRACT_REQUIRES_{cname} ({conj(out["requires"])})\n'
            f'#define CONTRACT_ENSURES_{cname} ({conj(out["ensures"])})\n')
