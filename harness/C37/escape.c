/* C37 (E2: the real StructuredLogger::escape_json (and the escape_control_characters it calls) of src/daemon/StructuredLogger.cpp with the string and output-string-stream models):
   for EVERY string of at most N bytes (all 256 byte values in every position) the escaped text
     - contains no byte below 0x20 (so a record built from it stays on ONE line) and no unescaped quote,
     - decodes, as the body of a JSON string per RFC 8259 (an independent decoder below), to exactly the bytes that were logged. */
#include "logjson.c"
#include "common.h"
#ifndef N
#define N 3
#endif
static int hexv(char c) { if (c >= '0' && c <= '9') return c - '0'; if (c >= 'a' && c <= 'f') return 10 + c - 'a'; if (c >= 'A' && c <= 'F') return 10 + c - 'A'; return -1; }
/* RFC 8259 decoding of the string body e[0..n): 0 = ok, value in out[0..*outn); 1 = malformed (raw control byte, raw quote, bad escape) */
static int decode_body(const char *e, uint64_t n, uint8_t *out, uint64_t *outn)
{
  uint64_t i = 0, o = 0;
  for (int step = 0; step < 6 * N + 1; ++step) {
    if (i >= n) { *outn = o; return 0; }
    unsigned char c = (unsigned char)e[i++];
    if (c < 0x20 || c == '"') return 1;
    if (c != '\\') { out[o++] = c; continue; }
    if (i >= n) return 1;
    char x = e[i++];
    if (x == '"' || x == '\\' || x == '/') out[o++] = (uint8_t)x;
    else if (x == 'b') out[o++] = 8; else if (x == 'f') out[o++] = 12; else if (x == 'n') out[o++] = 10;
    else if (x == 'r') out[o++] = 13; else if (x == 't') out[o++] = 9;
    else if (x == 'u') {
      if (i + 4 > n) return 1;
      long v = 0; for (int k = 0; k < 4; ++k) { int h = hexv(e[i + k]); if (h < 0) return 1; v = v * 16 + h; }
      i += 4;
      if (v >= 0x80) return 1;      /* the logger only needs \\u00XX for control bytes; anything else would need UTF-8 re-encoding here */
      out[o++] = (uint8_t)v;
    } else return 1;
  }
  return 1;
}
void h_escape(void)
{
  char in_text[N + 1]; uint64_t in_len; __CPROVER_assume(in_len <= N);
  strview v = {in_text, in_len};
  str e = daemon__StructuredLogger__escape_json(v);      /* what StructuredLogger::log applies to the event name and to every field name and value */
  __CPROVER_assert(__exc == 0, "escaping does not throw");
  uint64_t g; __CPROVER_assume(g < e.n);
  __CPROVER_assert((unsigned char)e.p[g] >= 0x20, "the escaped text contains no control byte: the record stays on one line");
  uint8_t back[6 * N + 2]; uint64_t back_n = 0;
  int rc = decode_body(e.p, e.n, back, &back_n);
  __CPROVER_assert(rc == 0, "the escaped text is a well-formed JSON string body");
  __CPROVER_assert(back_n == in_len, "it decodes to as many bytes as were logged");
  uint64_t h; __CPROVER_assume(h < in_len);
  if (rc == 0 && back_n == in_len) __CPROVER_assert(back[h] == (uint8_t)in_text[h], "it decodes back to exactly the bytes that were logged");
  CANARY_POINT();
}
