from vdriver import Group
META = {'level': 'other'}
T = 'crypto__Sha256__transform'
def groups(tier):
    G = []
    G.append(Group('transform.fips', 'sha256', 'C08/transform.c', enforce=T, unwind=65,
                   backend=['cvc5'], kind='constant-unwind', bound='loops of 16/48/64 rounds fully unwound',
                   clause='transform(state, block) == FIPS 180-4 compression for all 2^768 inputs; frame: only state_ written'))
    G.append(Group('update.stream', 'sha256', 'C08/update.c', enforce='crypto__Sha256__update', replace=[T, 'cxx_memcpy'], timeout=1500, checks=['--bounds-check', '--pointer-check', '--signed-overflow-check'],
                   loop_contracts=True, unwind=65, backend=['cadical'], kind='unbounded',
                   clause='update: for every data length, bytes absorbed in order exactly once; transform called on full blocks'))
    G.append(Group('finalize.padding', 'sha256', 'C08/finalize.c', enforce='crypto__Sha256__finalize', replace=[T],
                   unwind=65, backend=['sat'], kind='constant-unwind', bound='fill/length loops <= 64 iterations',
                   clause='finalize: blocks handed to transform are the FIPS padding; digest is big-endian state'))
    # The bounded end-to-end groups (concrete length/split, symbolic contents, digest through the public API against the FIPS
    # reference) were removed: only length 0 is decided; every length >= 1 exceeds 300 s / 12 GB on cvc5 and does not finish
    # on the SAT back ends either (measured, DESIGN.md section 7).  They produced UNDECIDED, never a verdict.
    HS = ['crypto__Sha256__Sha256__ctor', 'crypto__Sha256__update', 'crypto__Sha256__finalize', 'crypto__Sha256__digest']
    G.append(Group('hmac.compute', 'hmac', 'C08/hmac_rfc2104.c', entry='h_compute', replace=HS, unwind=66, backend=['sat'], kind='constant-unwind',
                   bound='key-block loops of 64 iterations; key and data lengths symbolic and unbounded',
                   clause='compute == H((K0^opad) | H((K0^ipad) | data)), K0 = key padded, or SHA(key) iff |key| > 64'))
    G.append(Group('hmac.verify', 'hmac', 'C08/hmac_rfc2104.c', entry='h_verify', replace=['crypto__HmacSha256__compute'], unwind=34,
                   backend=['sat'], kind='constant-unwind', bound='32-byte comparison loop',
                   clause='verify <=> |mac| == 32 and mac == compute(key, data)'))
    return G
