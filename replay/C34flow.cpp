// native replay for C34 (candidate builders): the REAL build_transport_advertise_candidates with private advertising NOT allowed,
// for every combination of STUN outcome x reflected address x bound control host.  exit 1 = a non-routable host is a candidate.
#include "src/network/AdvertiseDiscovery.cpp"
#include <cstdio>
using namespace ephemeralnet;
int main() {
    const char* hosts[] = {"127.0.0.1", "192.168.1.10", "10.0.0.5", "100.64.1.1", "198.19.0.7", "169.254.3.3", "::1", "fe80::1", "FD00::5", "::ffff:10.0.0.5", "::FFFF:192.168.0.1", "0.0.0.0", "", "203.0.113.9", "8.8.8.8", "2a00:1450::200e"};
    int bad = 0, total = 0;
    for (const char* bind : hosts) for (const char* reflected : hosts) for (int stun = 0; stun < 2; ++stun) {
        Config config{};
        config.advertise_allow_private = false;
        config.control_host = bind;
        config.identity_seed = 1u;
        network::NatTraversalResult t{};
        t.stun_succeeded = stun != 0; t.external_address = reflected; t.external_port = 40000;
        const auto r = network::build_transport_advertise_candidates(config, 45000, t);
        for (const auto& c : r.candidates) {
            ++total;
            if (network::is_private_or_reserved_host(c.host)) {
                std::printf("REPRODUCED: non-routable host \"%s\" is an auto-advertise candidate (via %s; bound to \"%s\", reflected \"%s\", stun %s)\n", c.host.c_str(), c.via.c_str(), bind, reflected, stun ? "ok" : "failed");
                ++bad;
                if (bad >= 3) return 1;
            }
        }
    }
    if (bad) return 1;
    std::printf("%d candidates over 512 scenarios: none non-routable\n", total);
    return 0;
}
