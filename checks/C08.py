from vdriver import Group
META = {'level': 'other'}
def groups(tier):
    G = []
    G.append(Group('transform.fips', 'sha256', 'C08/transform.c', enforce='crypto__Sha256__transform', unwind=65,
                   backend=['cvc5'], kind='constant-unwind', bound='loops of 16/48/64 rounds fully unwound',
                   clause='transform(state, block) == FIPS 180-4 compression for all 2^768 inputs; frame: only state_ written'))
    return G
