/* C22: the counting part of SwarmCoordinator::compute_plan on the real statements (lowered as slices) and candidate_peers.
   h_count      : for EVERY configuration, threshold, number of candidates and number of shards (full domain), the number of providers is
                  min(candidates, shards, max(target replicas, min(max(minimum providers, threshold), candidates, shards))).
   h_distribute : for every provider count 1..P and every manifest with at most T shards (provider count <= shards, as h_count
                  guarantees), the distribution loop hands every shard to exactly one provider (its label occurs once in all lists together and the lists
                  hold as many entries as there are shards), every provider receives at least one shard and the counts
                  differ by at most one.
   h_candidates : candidate_peers never offers the node itself, asks the table for max(sample, 1) peers and keeps the table's other
                  answers in order. */
#include "swarm_plan.c"
#include "common.h"
#ifndef P
#define P 3
#endif
#ifndef T
#define T 6
#endif
static uint64_t mn(uint64_t a, uint64_t b) { return a < b ? a : b; }
static uint64_t mx(uint64_t a, uint64_t b) { return a > b ? a : b; }
void h_count(void)
{
  static SwarmCoordinator sc; static protocol__Manifest mf; static vec_EvaluatedCandidate ev;
  static Config cfg;
  { Config a; cfg = a; protocol__Manifest b; mf = b; vec_EvaluatedCandidate c; ev = c; }
  sc.config_ = &cfg;       /* the coordinator holds a reference to the node's configuration */
  uint64_t cand = ev.n, shards = mf.shards.n, target = cfg.swarm_target_replicas, minp = cfg.swarm_min_providers, thr = mf.threshold;
  uint64_t got = SwarmCoordinator__compute_plan__slice_provider_count(&sc, &ev, &mf);
  uint64_t want = mn(mn(cand, shards), mx(target, mn(mn(mx(minp, thr), cand), shards)));
  __CPROVER_assert(got == want, "providers = min(candidates, shards, max(target replicas, min(max(minimum providers, threshold), candidates, shards)))");
  __CPROVER_assert(got <= cand && got <= shards, "never more providers than candidates or shards");
  CANARY_POINT();
}
void h_distribute(void)
{
  static protocol__Manifest mf; static SwarmDistributionPlan plan; static protocol__KeyShard shards[T]; static SwarmAssignment asg[P];
  { protocol__KeyShard a[T]; for (int k = 0; k < T; ++k) shards[k] = a[k]; }
  uint64_t in_p, in_t; __CPROVER_assume(1 <= in_p && in_p <= P && in_p <= in_t && in_t <= T);
  for (int i = 0; i < T; ++i) for (int j = 0; j < i; ++j) __CPROVER_assume(shards[i].index != shards[j].index);   /* share labels are pairwise distinct (validate_shards, C35) */
  mf.shards.p = shards; mf.shards.n = in_t; mf.shards.cap = T;
  for (int k = 0; k < P; ++k) { asg[k].shard_indices.p = 0; asg[k].shard_indices.n = 0; asg[k].shard_indices.cap = 0; }   /* as created by the assignment loop */
  plan.assignments.p = asg; plan.assignments.n = in_p; plan.assignments.cap = P;
  uint64_t total = in_t, count = in_p;
  SwarmCoordinator__compute_plan__slice_distribute(&mf, &plan, &count, &total);
  uint64_t sum = 0, lo = (uint64_t)-1, hi = 0;
  for (uint64_t k = 0; k < P; ++k) if (k < in_p) { uint64_t c = asg[k].shard_indices.n; sum += c; if (c < lo) lo = c; if (c > hi) hi = c; }
  __CPROVER_assert(sum == in_t, "the providers' shard lists together hold as many entries as the manifest has shards");
  uint64_t g; __CPROVER_assume(g < in_t);
  uint64_t holders = 0;
  for (uint64_t k = 0; k < P; ++k) if (k < in_p) for (uint64_t j = 0; j < T; ++j) if (j < asg[k].shard_indices.n && asg[k].shard_indices.p[j] == shards[g].index) holders++;
  __CPROVER_assert(holders == 1, "every shard of the manifest is handed to exactly one provider");
  __CPROVER_assert(lo >= 1, "every provider receives at least one shard");
  __CPROVER_assert(hi - lo <= 1, "shard counts differ by at most one");
  CANARY_POINT();
}
void h_candidates(void)
{
  static SwarmCoordinator sc; static KademliaTable tab; static PeerContact peers[4]; arr_u8_32 in_chunk, in_self;
  static Config cfg;
  { Config a; cfg = a; PeerContact b[4]; for (int k = 0; k < 4; ++k) peers[k] = b[k]; }
  sc.config_ = &cfg;
  uint64_t in_n; __CPROVER_assume(in_n <= 3);
  g_closest.p = peers; g_closest.n = in_n; g_closest.cap = 4;
  PeerContact before[4]; for (int k = 0; k < 4; ++k) before[k] = peers[k];
  vec_PeerContact r = SwarmCoordinator__candidate_peers(&sc, &in_chunk, &tab, &in_self);
  uint64_t sample = cfg.swarm_candidate_sample;
  __CPROVER_assert(g_closest_limit == (sample < 1 ? 1 : sample), "the table is asked for max(candidate sample, 1) peers");
  uint64_t others = 0; for (uint64_t k = 0; k < 3; ++k) if (k < in_n && cxx_memcmp(before[k].id._, in_self._, 32) != 0) others++;
  __CPROVER_assert(r.n == others, "exactly the table's answers other than the node itself are offered");
  uint64_t g; __CPROVER_assume(g < r.n);
  __CPROVER_assert(cxx_memcmp(r.p[g].id._, in_self._, 32) != 0, "the node itself is never a candidate provider");
  CANARY_POINT();
}
