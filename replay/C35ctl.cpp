// native replay for C35 (control plane): a REAL Node + ControlServer (no token configured); a client sends FETCH with a valid
// manifest and an EMPTY OUT value.  If an exception escapes the accept loop the process dies with std::terminate (SIGABRT):
// the driver then never prints its completion line.  args: port
#include "ephemeralnet/core/Node.hpp"
#include "ephemeralnet/daemon/ControlPlane.hpp"
#include "ephemeralnet/protocol/Manifest.hpp"
#include <cstdio>
#include <cstdlib>
#include <mutex>
#include <thread>
using namespace ephemeralnet;
int main(int argc, char** argv) {
    if (argc < 2) return 2;
    const auto port = static_cast<std::uint16_t>(std::atoi(argv[1]));
    Config config{};
    config.control_host = "127.0.0.1"; config.control_port = port; config.identity_seed = 5u;
    PeerId id{}; id[0] = 0x35;
    Node node(id, config);
    std::mutex node_mutex;
    daemon::ControlServer server(node, node_mutex, []() {});
    server.start("127.0.0.1", port);
    std::this_thread::sleep_for(std::chrono::milliseconds(200));
    ChunkId chunk{}; chunk[0] = 3;
    std::string uri;
    { std::scoped_lock lock(node_mutex); uri = protocol::encode_manifest(node.store_chunk(chunk, ChunkData{'x', 'y'}, std::chrono::seconds(120), std::nullopt)); }
    daemon::ControlClient client("127.0.0.1", port, std::nullopt);
    std::printf("sending FETCH with an empty OUT value, a malformed manifest, an unwritable OUT path, and a huge TTL\n"); std::fflush(stdout);
    (void)client.send("FETCH", {{"MANIFEST", "eph://!!!!"}, {"OUT", "/tmp/c35-x"}});
    (void)client.send("FETCH", {{"MANIFEST", uri}, {"OUT", "/proc/nonexistent-dir/file"}});
    (void)client.send("STORE", {{"TTL", "99999999999999999999999999"}}, std::vector<std::uint8_t>{1, 2});
    const auto r = client.send("FETCH", {{"MANIFEST", uri}, {"OUT", ""}});
    std::this_thread::sleep_for(std::chrono::milliseconds(300));
    const auto ping = client.send("PING");
    if (!ping.has_value() || !ping->success) { std::printf("REPRODUCED: the control server no longer answers after the request\n"); std::fflush(stdout); std::_Exit(1); }
    std::printf("SURVIVED: the daemon answered (%s) and still serves PING\n", r.has_value() ? (r->success ? "OK" : "ERROR") : "no response");
    std::fflush(stdout);
    server.stop();
    std::_Exit(0);
}
