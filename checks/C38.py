from vdriver import Group
META = {'level': 'other'}
def groups(tier):
    n = 5 if tier == 'quick' else 7
    K = dict(unit='json_string', harness='C38/strings.c', entry='h_string', kind='bounded', backend=['sat', 'cadical'], timeout=2400,
             checks=['--bounds-check', '--pointer-check'], replay='string')
    return [Group('string.decode', unwind=n + 3, unwind_by={'JsonParser__parse_string#0': n + 1}, defines=['CXX_FIXED_STORAGE', f'CXX_VEC_CAP={4 * n + 8}', f'N={n}'],
                  bound=f'inputs of at most {n} bytes, every byte value in every position',
                  clause='parse_string: every well-formed JSON string is accepted and decoded to exactly its RFC 8259 value; only runtime_error escapes', **K),
            Group('string.char_then_escape', unwind=9, unwind_by={'JsonParser__parse_string#0': 4}, defines=['CXX_FIXED_STORAGE', 'CXX_VEC_CAP=32', 'N=5', 'MIXED'],
                  bound='inputs of the shape "c\\e": every ordinary byte c, every escape letter e other than u',
                  clause='an ordinary character followed by an escape decodes to the character followed by the escaped character (or the escape is refused)', **K),
            Group('string.single_escape', unwind=12, defines=['CXX_FIXED_STORAGE', 'CXX_VEC_CAP=40', 'N=8', 'SINGLE'],
                  bound='inputs of the shape "\\uHHHH" with all 2^16 combinations of hex digits (upper and lower case)',
                  clause='one \\u escape of a non-surrogate code point decodes to its 1-3 byte UTF-8 encoding', **K),
            Group('string.surrogate_pairs', unwind=18, unwind_by={'JsonParser__parse_string#0': 5}, defines=['CXX_FIXED_STORAGE', 'CXX_VEC_CAP=64', 'N=14', 'PAIR', 'PAIR_SURROGATES'],
                  bound='inputs of the shape "\\uHHHH\\uHHHH", first escape in D800..DBFF and second in DC00..DFFF: all 2^20 pairs, upper and lower case digits',
                  clause='a high surrogate escape followed by a low surrogate escape decodes to ONE supplementary code point (4-byte UTF-8)', **K),
            Group('string.two_escapes', unwind=18, unwind_by={'JsonParser__parse_string#0': 5}, defines=['CXX_FIXED_STORAGE', 'CXX_VEC_CAP=64', 'N=14', 'PAIR'],
                  bound='inputs of the shape "\\uHHHH\\uHHHH" that are not a surrogate pair, all hex digits (upper and lower case)',
                  clause='two consecutive \\u escapes that do not form a surrogate pair decode independently (unpaired surrogates unconstrained)', **K)]
def replay(group, trace):
    """the REAL JsonParser on the counterexample text; the expected value is computed by Python's json module (RFC 8259)"""
    import sys, os, json
    root = os.path.dirname(os.path.dirname(os.path.abspath(__file__)))
    sys.path.insert(0, os.path.join(root, 'replay'))
    import replaylib as R
    a = (trace or {}).get('assignments', {})
    if 'in_len' not in a:
        return None, 'counterexample has no input text'
    n = R.num(a['in_len'])
    text = bytearray((R.num(a.get(f'in_text[{k}]', 0)) & 0xFF) for k in range(n))
    shape = {'MIXED': {0: '"', 2: '\\', 4: '"'}, 'PAIR': {0: '"', 1: '\\', 2: 'u', 7: '\\', 8: 'u', 13: '"'}, 'SINGLE': {0: '"', 1: '\\', 2: 'u', 7: '"'}}
    for d, fixed in shape.items():       # positions the harness fixes after declaring the array
        if d in group.defines:
            for k, c in fixed.items():
                if k < n:
                    text[k] = ord(c)
    text = bytes(text)
    if not all(b < 0x80 for b in text):
        return None, f'input {text!r} is not ASCII: no reference value computed'
    try:
        json.loads(text.decode('ascii'), strict=False)
    except Exception:
        return None, f'input {text!r} is not a JSON document for the json module'
    want = json.loads(text.decode('ascii'), strict=False)
    try:
        want_utf8 = want.encode('utf-8')
    except UnicodeEncodeError:
        return None, f'input {text!r} contains an unpaired surrogate'
    exe = R.build('C38.cpp', [], extra=['-fno-access-control', '-w'], libs=['-lcurl'])
    rc, out = R.run(exe, [text.hex()], timeout=30)
    line = out.strip().splitlines()[-1] if out.strip() else ''
    got = bytes.fromhex(line[3:]) if line.startswith('OK ') else None
    bad = got != want_utf8
    return bad, f'input {text.decode("ascii")}: RFC 8259 value {want_utf8.hex()} ({want!r}); the parser returned {line}' + (' REPRODUCED' if bad else '')
