from vdriver import Group
META = {'level': 'other', 'assumptions': ['std::shared_ptr / std::weak_ptr are lowered to plain pointers: reference counts, object lifetime and weak_ptr expiry are not modelled (every session object stays alive during one event)', 'the relay handles events sequentially (single-threaded epoll loop): one handler call per obligation']}
STUBS = ['relay__RelayServer__close_session', 'relay__RelayServer__queue_text', 'relay__is_hex_string', 'peer_id_from_string', 'peer_id_to_string']
def groups(tier):
    K = dict(unit='relay_pairing', harness='C25/pairing.c', stub=STUBS, unwind=6, unwind_by={'cxx_strlen': 30, 'str_from_n': 30, 'cxx_memcmp': 10, 'h_connect': 10, 'h_register': 10, 'h_detach': 10}, kind='unbounded', backend=['sat', 'cadical'], timeout=600,
             checks=['--bounds-check', '--pointer-check'], defines=['CXX_FIXED_STORAGE', 'CXX_VEC_CAP=32'], replay='reregister')
    return [Group('pairing.register', entry='h_register', clause='one REGISTER line preserves: pairings symmetric, only unclaimed sessions listed as registered, no partner before the first command', **K),
            Group('pairing.connect', entry='h_connect', clause='one CONNECT line preserves the same invariant and pairs the connector with exactly the session listed for the target', **K),
            Group('pairing.detach', entry='h_detach', clause='detach_partner: the partner of a disconnecting session is unlinked; a bridged / bridging partner is disconnected, a merely claimed registered peer is listed again', **dict(K, replay='disconnect'))]
def replay(group, trace):
    """the REAL RelayServer with three TCP clients: a claimed peer registers again and a second connector asks for it"""
    import sys, os
    root = os.path.dirname(os.path.dirname(os.path.abspath(__file__)))
    sys.path.insert(0, os.path.join(root, 'replay'))
    import replaylib as R
    exe = R.build_full('C25.cpp', with_daemon=False)
    rc, out = R.run(exe, [group.replay], timeout=60)
    last = [l for l in out.strip().splitlines() if l.strip()][-1:] or ['']
    return rc == 1, last[0][:500]
