/* C09: ChaCha20::apply for every key, nonce, initial counter and input length (loop contract, unbounded):
   output[g] = input[g] XOR RFC8439-block(key, nonce, counter0 + floor(g/64) mod 2^32)[g mod 64]; |output| = |input|. */
#include "chacha20.c"
#include "common.h"
void h_apply(void)
{
  crypto__Key in_key; crypto__Nonce in_nonce; uint32_t in_counter; uint64_t in_n;
  __CPROVER_assume(in_n >= 1 && in_n <= 0x00007FFFFFFFFFFFul);
  uint8_t *in_data = malloc(in_n);
  __CPROVER_assume(in_data != 0);
  vec_u8 out = {0};
  __CPROVER_assume(__g_pos < in_n);
  __g_I = __g_pos & 63;
  __g_C = (uint32_t)(in_counter + (__g_pos >> 6));     /* counter advance with 32-bit wrap */
  __g_counter0 = in_counter; __g_in = in_data;
  crypto__ChaCha20__apply(&in_key, &in_nonce, (span_u8){in_data, in_n}, &out, in_counter);
  CANARY_POINT();
}
void h_apply_empty(void)
{
  crypto__Key in_key; crypto__Nonce in_nonce; uint32_t in_counter; uint8_t dummy;
  vec_u8 out; uint64_t old_n; __CPROVER_assume(old_n <= 8); out.p = malloc(8); out.n = old_n; out.cap = 8;
  __CPROVER_assume(out.p != 0);
  crypto__ChaCha20__apply(&in_key, &in_nonce, (span_u8){&dummy, 0}, &out, in_counter);
  __CPROVER_assert(out.n == 0, "empty input gives empty output");
  CANARY_POINT();
}
void h_involution_lemma(void)
{
  uint8_t x, k;
  __CPROVER_assert((uint8_t)((uint8_t)(x ^ k) ^ k) == x, "XOR with the same keystream byte twice restores the input byte");
  CANARY_POINT();
}
