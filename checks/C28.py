from vdriver import Group
import importlib.util, os
META = {'level': 'other'}
def _c19():
    spec = importlib.util.spec_from_file_location('chk_C19_for_C28', os.path.join(os.path.dirname(os.path.abspath(__file__)), 'C19.py'))
    m = importlib.util.module_from_spec(spec)
    spec.loader.exec_module(m)
    return m
def groups(tier):
    R = dict(unit='ctrl_rate', harness='C28/rate.c', unwind=16, kind='unbounded', timeout=600, backend=['sat', 'cadical', 'cvc5'], defines=['CXX_VEC_CAP=16'])
    return _groups(tier) + [
        Group('rate.store', entry='h_store_rate', clause='allow_store_request: one step from every admissible history, symbolic clock: at most 6 accepted per identity in any 30 s window; refused only then', **R),
        Group('rate.fetch', entry='h_fetch_rate', clause='allow_stream_fetch: the same with limit 12', **R)] + \
        [g for g in _c19().groups(tier) if g.name in ('store.clz', 'store.valid')]    # the PoW predicate STORE admission relies on (C19 obligations)
def _groups(tier):
    return [Group('store.admission', 'ctrl_admit', 'C28/admit.c', entry='h_admit', unwind=3, kind='skeleton', checks=[], skeleton=True, replay='rate',
                  bound='control-flow skeleton (E3) with value tags; loops unrolled twice', timeout=900, backend=['sat', 'cadical'],
                  clause='STORE: body read only after the length check; store_chunk only with the TTL found inside the window, a valid PoW '
                         'when enabled, and after the rate limiter admitted the request under the client address (or a verified token)')]


def replay(group, trace):
    if group.replay != 'rate':
        return None, 'no native replay for this group'
    """a REAL Node + ControlServer without a token: 12 STOREs from one address with 12 different TOKEN headers"""
    import sys, os, random
    root = os.path.dirname(os.path.dirname(os.path.abspath(__file__)))
    sys.path.insert(0, os.path.join(root, 'replay'))
    import replaylib as R
    exe = R.build_full('C28.cpp')
    port = 23000 + (os.getpid() * 17 + random.randint(0, 9000)) % 14000
    rc, out = R.run(exe, [port], timeout=90)
    last = [l for l in out.strip().splitlines() if l.strip()][-1:] or ['']
    return rc == 1, last[0][:400]
