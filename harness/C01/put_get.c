/* C01 (E2, real code with container models, chunks_ in the single-key view): from ANY prior state of the chunk's entry (absent,
   live or expired-but-unswept, arbitrary contents), ChunkStore::put replaces BOTH the bytes and the deadline
   (deadline = now + max(ttl, 1 s), default TTL for ttl <= 0), and get_record afterwards serves exactly those bytes at every
   instant before the deadline and nothing at or after it.  Persistence is disabled in this group (no file effects). */
#include "chunkstore_e2.c"
#include "common.h"
#define NS 1000000000l
void h_put_get(void)
{
  ChunkStore *in_store = malloc(sizeof(ChunkStore)); arr_u8_32 in_id; int64_t in_ttl; arr_u8_12 in_nonce; _Bool in_enc;
  uint8_t *in_bytes = malloc(16); uint64_t in_len;
  __CPROVER_assume(in_store && in_bytes && in_len <= 16 && in_store->chunks_.n <= 1 && !in_store->persistent_enabled_);
  __CPROVER_assume(in_store->config_.default_chunk_ttl >= 1 && in_store->config_.default_chunk_ttl <= 86400 && in_ttl <= 1000000000l && in_ttl >= -1000000000l);
  in_store->chunks_.e[0].second.persisted = 0;
  /* type invariant of the store: the list of expiries still to be reported is a valid vector (here: empty) */
  static arr_u8_32 pending_ids[2]; uint64_t in_pending = 0;   /* (with a symbolic non-empty list no SMT back end finishes; the list is only compacted by put and not read by the clauses below) */
  in_store->expired_unreported_.p = pending_ids; in_store->expired_unreported_.n = in_pending; in_store->expired_unreported_.cap = 2;
  int64_t t_put;   /* the clock reading put() will see */
  __CPROVER_assume(t_put >= 0 && t_put <= 4000000000000000000l);
  __g_clock_steady = t_put; __g_clock_fixed = 1;
  ChunkStore__put(in_store, &in_id, (vec_u8){in_bytes, in_len, in_len}, in_ttl, in_nonce, in_enc);
  int64_t eff = in_ttl > 0 ? in_ttl : in_store->config_.default_chunk_ttl;
  if (eff < 1) eff = 1;
  int64_t deadline = t_put + eff * NS;
  __CPROVER_assert(in_store->chunks_.n == 1 && in_store->chunks_.e[0].second.expires_at == deadline, "put sets the deadline to now + effective TTL, whatever entry existed before");
  __CPROVER_assert(in_store->chunks_.e[0].second.data.p == in_bytes && in_store->chunks_.e[0].second.data.n == in_len, "put stores exactly the given bytes, whatever entry existed before");
  int64_t t_get; __CPROVER_assume(t_get >= t_put && t_get <= 4600000000000000000l);
  __g_clock_steady = t_get;
  opt_ChunkRecord r = ChunkStore__get_record(in_store, &in_id);
  __CPROVER_assert(r.has == (t_get < deadline), "the chunk is served at every instant before its deadline and at none at or after it");
  if (r.has) __CPROVER_assert(r.v.data.p == in_bytes && r.v.data.n == in_len, "with exactly the stored bytes");
  else __CPROVER_assert(in_store->chunks_.n == 0, "an expired record is dropped by the lookup that notices it");
  CANARY_POINT();
}
