"""C++ type strings (as printed by clang) -> type trees -> C spellings."""
import re
from cxxast import LoweringError

PRIMS = {
    'void': 'void', 'bool': '_Bool', 'char': 'char', 'signed char': 'signed char', 'unsigned char': 'uint8_t',
    'short': 'int16_t', 'unsigned short': 'uint16_t', 'int': 'int', 'unsigned int': 'uint32_t', 'unsigned': 'uint32_t',
    'long': 'int64_t', 'unsigned long': 'uint64_t', 'long long': 'long long', 'unsigned long long': 'unsigned long long',
    'float': 'float', 'double': 'double', 'long double': 'long double', 'char8_t': 'uint8_t',
    'std::uint8_t': 'uint8_t', 'std::uint16_t': 'uint16_t', 'std::uint32_t': 'uint32_t', 'std::uint64_t': 'uint64_t',
    'std::int8_t': 'int8_t', 'std::int16_t': 'int16_t', 'std::int32_t': 'int32_t', 'std::int64_t': 'int64_t',
    'uint8_t': 'uint8_t', 'uint16_t': 'uint16_t', 'uint32_t': 'uint32_t', 'uint64_t': 'uint64_t',
    'int8_t': 'int8_t', 'int16_t': 'int16_t', 'int32_t': 'int32_t', 'int64_t': 'int64_t',
    'std::size_t': 'uint64_t', 'size_t': 'uint64_t', 'std::ptrdiff_t': 'int64_t', 'ptrdiff_t': 'int64_t',
    'std::uintptr_t': 'uint64_t', 'std::intptr_t': 'int64_t', 'ssize_t': 'int64_t', 'std::byte': 'uint8_t',
    '__int128': '__int128', 'unsigned __int128': 'unsigned __int128',
    'in_addr_t': 'uint32_t', 'in_port_t': 'uint16_t', 'socklen_t': 'uint32_t',
    'std::nullptr_t': 'void*', 'std::time_t': 'int64_t', 'time_t': 'int64_t',
}
SHORT = {'uint8_t': 'u8', 'uint16_t': 'u16', 'uint32_t': 'u32', 'uint64_t': 'u64', 'int8_t': 'i8', 'int16_t': 'i16',
         'int': 'int', 'int32_t': 'i32', 'int64_t': 'i64', 'char': 'char', '_Bool': 'bool', 'double': 'f64',
         'float': 'f32'}

TOK = re.compile(r'\s*(::|&&|[<>,*&()\[\]]|\.\.\.|[A-Za-z_][A-Za-z_0-9]*|-?[0-9]+[uUlL]*|\'[^\']*\')')


class T:
    """kind: prim(name) | ptr(sub) | ref(sub) | rref(sub) | carr(sub,n) | tmpl(name,args) | rec(name) | func(ret,args)
       | num(value) | member(base tmpl, membername)"""
    def __init__(self, kind, name=None, sub=None, args=None, n=None, const=False):
        self.kind, self.name, self.sub, self.args, self.n, self.const = kind, name, sub, args or [], n, const

    def __repr__(self):
        if self.kind in ('prim', 'rec'):
            return self.name
        if self.kind == 'num':
            return str(self.n)
        if self.kind in ('ptr', 'ref', 'rref'):
            return f'{self.kind}({self.sub!r})'
        if self.kind == 'carr':
            return f'{self.sub!r}[{self.n}]'
        if self.kind == 'tmpl':
            return f'{self.name}<{", ".join(map(repr, self.args))}>'
        if self.kind == 'func':
            return f'{self.sub!r}({", ".join(map(repr, self.args))})'
        return self.kind

    def strip_ref(self):
        return self.sub if self.kind in ('ref', 'rref') else self

    def is_ref(self):
        return self.kind in ('ref', 'rref')


def tokenize(s):
    s = re.sub(r'\(lambda at [^)]*\)', '(lambda)', s)     # closure types are printed with their source location (path:line:col)
    out = []
    i = 0
    while i < len(s):
        m = TOK.match(s, i)
        if not m:
            if s[i:].strip() == '':
                break
            raise LoweringError(f'type tokenizer: cannot read {s[i:]!r} in {s!r}')
        out.append(m.group(1))
        i = m.end()
    return out


QUALS = {'const', 'volatile', 'struct', 'class', 'enum', 'typename', '__restrict', 'restrict', 'union'}
MULTI = {'unsigned', 'signed', 'long', 'short', 'int', 'char', 'double', 'float', '__int128'}


class Parser:
    def __init__(self, s):
        self.s = s
        self.t = tokenize(s)
        self.i = 0

    def peek(self):
        return self.t[self.i] if self.i < len(self.t) else None

    def eat(self, x=None):
        tok = self.peek()
        if x is not None and tok != x:
            raise LoweringError(f'type parser: expected {x!r} got {tok!r} in {self.s!r}')
        self.i += 1
        return tok

    def parse(self):
        t = self.type()
        if self.peek() is not None:
            raise LoweringError(f'type parser: trailing {self.t[self.i:]} in {self.s!r}')
        return t

    def type(self):
        const = False
        while self.peek() in QUALS:
            if self.eat() == 'const':
                const = True
        base = self.base()
        base.const = base.const or const
        return self.suffix(base)

    def base(self):
        tok = self.peek()
        if tok is None:
            raise LoweringError(f'type parser: empty in {self.s!r}')
        if re.match(r'-?[0-9]', tok):
            self.eat()
            return T('num', n=int(re.sub(r'[uUlL]+$', '', tok)))
        if tok.startswith("'"):
            self.eat()
            return T('num', n=ord(tok[1]))
        if tok in MULTI:
            words = []
            while self.peek() in MULTI:
                words.append(self.eat())
            name = ' '.join(words)
            norm = {'unsigned int': 'unsigned int', 'long int': 'long', 'unsigned long int': 'unsigned long',
                    'long unsigned int': 'unsigned long', 'short int': 'short', 'unsigned short int': 'unsigned short',
                    'long long int': 'long long', 'unsigned long long int': 'unsigned long long'}.get(name, name)
            return T('prim', norm)
        # qualified name with optional template args per component
        parts = []
        cur = None
        if tok == '::':
            self.eat()
        while True:
            ident = self.eat()
            if ident == '(':  # (anonymous namespace) / (lambda at ...)
                depth = 1
                txt = ['(']
                while depth:
                    x = self.eat()
                    if x == '(':
                        depth += 1
                    if x == ')':
                        depth -= 1
                    txt.append(x)
                ident = ' '.join(txt)
            if not (ident and (re.match(r'[A-Za-z_(]', ident))):
                raise LoweringError(f'type parser: bad identifier {ident!r} in {self.s!r}')
            parts.append(ident)
            if self.peek() == '<':
                self.eat('<')
                args = []
                if self.peek() != '>':
                    while True:
                        args.append(self.type())
                        if self.peek() == ',':
                            self.eat()
                            continue
                        break
                self.eat('>')
                cur = T('tmpl', '::'.join(p for p in parts if not p.startswith('(')), args=args)
                parts = []
                if self.peek() == '::':
                    self.eat()
                    mem = self.eat()
                    cur = T('member', mem, sub=cur)
                    while self.peek() == '::':
                        self.eat()
                        cur = T('member', self.eat(), sub=cur)
                    return cur
                return cur
            if self.peek() == '::':
                self.eat()
                continue
            break
        name = '::'.join(p for p in parts if not p.startswith('('))
        if name in PRIMS:
            return T('prim', name)
        return T('rec', name)

    def suffix(self, base):
        t = base
        while True:
            tok = self.peek()
            if tok == 'const' or tok in ('volatile', '__restrict', 'restrict'):
                self.eat()
                if tok == 'const':
                    t.const = True
            elif tok == '*':
                self.eat()
                t = T('ptr', sub=t)
            elif tok == '&':
                self.eat()
                t = T('ref', sub=t)
            elif tok == '&&':
                self.eat()
                t = T('rref', sub=t)
            elif tok == '[':
                self.eat()
                n = None
                if self.peek() != ']':
                    n = int(re.sub(r'[uUlL]+$', '', self.eat()))
                self.eat(']')
                t = T('carr', sub=t, n=n)
            elif tok == '(':
                # function type:  ret (args) [const] [noexcept]   or  ret (*)(args)
                self.eat('(')
                if self.peek() in ('*', '&'):
                    ptrk = self.eat()
                    self.eat(')')
                    self.eat('(')
                    args = self.arglist()
                    fn = T('func', sub=t, args=args)
                    self.fn_trailer()
                    t = T('ptr', sub=fn) if ptrk == '*' else T('ref', sub=fn)
                else:
                    args = self.arglist()
                    t = T('func', sub=t, args=args)
                    self.fn_trailer()
            else:
                return t

    def fn_trailer(self):
        while self.peek() in ('const', 'noexcept', '&', '&&'):
            self.eat()
            if self.peek() == '(':
                depth = 0
                while True:
                    x = self.eat()
                    if x == '(':
                        depth += 1
                    if x == ')':
                        depth -= 1
                        if depth == 0:
                            break

    def arglist(self):
        args = []
        if self.peek() == ')':
            self.eat()
            return args
        while True:
            if self.peek() == '...':
                self.eat()
            else:
                args.append(self.type())
            if self.peek() == ',':
                self.eat()
                continue
            self.eat(')')
            return args


_cache = {}


PREPROCESS = None   # set by the lowering: rewrites constant expressions inside type strings (e.g. PeerId{}.size())


def parse_type(s):
    if PREPROCESS is not None and '{}' in s:
        s = PREPROCESS(s)
    if s not in _cache:
        _cache[s] = Parser(s).parse()
    return _cache[s]
