/* C23 (E3 skeleton of Node::tick and Node::process_pending_uploads): on EVERY path through a tick -- whatever the pending queue,
   the cleanup interval or any other condition -- the transfer-timeout pruning pass (prune_stale_uploads) runs, so an upload whose
   timeout has passed loses its slot at the next tick even when nothing is queued. */
#include "uploads_tick.c"
#include "common.h"
void h_tick(void)
{
  g_pruned = 0;
  skel_Node__tick();
  __CPROVER_assert(g_pruned >= 1, "every tick runs the transfer-timeout pruning pass");
  CANARY_POINT();
}
