from vdriver import Group
META = {'level': 'proof'}
def groups(tier):
    return [Group('decode_signed', 'message', 'C13/signed.c', entry='h_decode_signed',
                  replace=['crypto__HmacSha256__verify', 'protocol__decode'], kind='unbounded',
                  clause='decode_signed accepts iff n >= 32, verify(key, buf[0,n-32), buf[n-32,n)) and decode(buf[0,n-32)) succeed')]
