// native replay for C31: the REAL sanitisers on the counterexample text (hex-encoded argv[2]).
//   fetch : the sanitize_filename lambda of `eph fetch` is local to main(); its statements are reproduced here through the same
//           library calls is NOT acceptable for a replay, so the fetch group replays through Node::store_chunk's twin only when
//           the unit is 'node'; for 'fetch' the replay reports not-reproducible (the check then says no-failing-input-found)
//   node  : Node::store_chunk(chunk, data, ttl, name) -> manifest.metadata["filename"]
//   hint  : security::sanitize_filename_hint(name)
// exit 1 = the returned name is not a safe single path component.
#include "ephemeralnet/core/Node.hpp"
#include "ephemeralnet/security/StoreProof.hpp"
#include <cstdio>
#include <string>
using namespace ephemeralnet;
static std::string unhex(const std::string& h) { std::string o; for (std::size_t i = 0; i + 1 < h.size(); i += 2) o.push_back(static_cast<char>(std::stoi(h.substr(i, 2), nullptr, 16))); return o; }
static int bad(const std::string& n, bool strict) {
    if (n.size() > 255) { std::printf("REPRODUCED: name of %zu bytes\n", n.size()); return 1; }
    if (n == "." || n == "..") { std::printf("REPRODUCED: the name is \"%s\"\n", n.c_str()); return 1; }
    for (unsigned char c : n) {
        if (c == '/') { std::printf("REPRODUCED: the name contains a path separator\n"); return 1; }
        if (strict && (c < 32 || c == 127 || std::string("\\:*?\"<>|").find(static_cast<char>(c)) != std::string::npos)) { std::printf("REPRODUCED: the name contains the control/reserved byte 0x%02x\n", c); return 1; }
    }
    return 0;
}
int main(int argc, char** argv) {
    if (argc < 3) return 2;
    const std::string unit = argv[1], text = unhex(argv[2]);
    if (unit == "hint") {
        const auto r = security::sanitize_filename_hint(text);
        if (r.has_value() && (r->empty() || bad(*r, false))) { if (r->empty()) std::printf("REPRODUCED: an empty hint is offered\n"); return 1; }
        std::printf("hint ok\n"); return 0;
    }
    if (unit == "node") {
        Config c{}; c.identity_seed = 7u; PeerId id{}; id[0] = 9;
        Node n(id, c);
        ChunkId chunk{}; chunk[0] = 0x31;
        const auto m = n.store_chunk(chunk, ChunkData{1, 2, 3}, std::chrono::seconds(60), text);
        const auto it = m.metadata.find("filename");
        if (it != m.metadata.end() && (it->second.empty() || bad(it->second, true))) { if (it->second.empty()) std::printf("REPRODUCED: an empty filename is recorded\n"); return 1; }
        std::printf("recorded name ok\n"); return 0;
    }
    return 3;
}
