// native replay for C35: the REAL Node.  A peer with an established session (valid handshake) announces a manifest whose key
// shards repeat an index (it passes validate_shards) and then sends a correctly signed CHUNK message for it.
// exit 1 = an exception escapes Node::handle_transport_message (in the daemon: std::terminate on the session thread).
#include "src/core/Node.cpp"
#include <cstdio>
using namespace ephemeralnet;
int main() {
    Config config{};
    config.handshake_pow_difficulty = 8;
    config.identity_seed = 21u;
    PeerId self{}; self[0] = 0xB1;
    Node node(self, config);
    PeerId peer{}; peer[0] = 0xA1;
    const std::uint32_t key1 = network::KeyExchange::compute_public(424243u);
    std::uint64_t nonce1 = 0;
    if (!compute_handshake_pow(peer, self, key1, node.config().handshake_pow_difficulty, nonce1) || !node.perform_handshake(peer, key1, nonce1)) { std::printf("handshake setup failed\n"); return 2; }
    const auto session = node.session_key(peer);
    if (!session.has_value()) { std::printf("no session key\n"); return 2; }

    protocol::Manifest m{};
    m.chunk_id[0] = 0x35;
    m.threshold = 2; m.total_shares = 2;
    protocol::KeyShard s1{}, s2{};
    s1.index = 1; s2.index = 1;                       // repeated index
    for (std::size_t i = 0; i < s1.value.size(); ++i) { s1.value[i] = static_cast<std::uint8_t>(i + 1); s2.value[i] = static_cast<std::uint8_t>(2 * i + 3); }
    m.shards = {s1, s2};
    m.expires_at = std::chrono::system_clock::now() + std::chrono::hours(1);
    const auto uri = protocol::encode_manifest(m);
    if (!node.ingest_manifest(uri)) { std::printf("manifest was refused at registration (shard set validated): no exception possible on this path\n"); return 0; }

    protocol::Message msg{};
    msg.version = protocol::kCurrentMessageVersion;
    msg.type = protocol::MessageType::Chunk;
    protocol::ChunkPayload cp{};
    cp.chunk_id = m.chunk_id; cp.data = {1, 2, 3, 4}; cp.ttl = std::chrono::seconds(60);
    msg.payload = cp;
    const auto wire = protocol::encode_signed(msg, std::span<const std::uint8_t>(session->data(), session->size()));
    network::TransportMessage tm{};
    tm.peer_id = peer;
    tm.payload = wire;
    try {
        node.handle_transport_message(tm);
    } catch (const std::exception& e) {
        std::printf("REPRODUCED: %s escaped Node::handle_transport_message for a signed CHUNK whose cached manifest repeats a shard index: \"%s\"\n", typeid(e).name(), e.what());
        return 1;
    }
    std::printf("message handled without an escaping exception\n");
    return 0;
}
