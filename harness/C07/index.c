/* C07 (leaf obligations): bucket index == highest differing bit for all 2^512 id pairs; XOR distance bytewise;
   lexicographic order of distances == numeric order of the 256-bit big-endian values. */
#include "kad_index.c"
#include "common.h"
void h_bucket_index(void)
{
  KademliaTable in_self; arr_u8_32 in_peer;
  opt_u64 r = KademliaTable__bucket_index_for(&in_self, &in_peer);
  CANARY_POINT();
}
void h_xor_distance(void)
{
  arr_u8_32 in_a, in_b;
  __CPROVER_assume(__g_k < 32);
  arr_u8_32 r = KademliaTable__xor_distance(&in_a, &in_b);
  CANARY_POINT();
}
/* lemma: the comparison used by closest_peers (std::array operator< = lexicographic, modelled by cxx_memcmp) orders distances
   numerically: a < b  <=>  the big-endian subtraction a - b borrows out of the top byte */
void h_order(void)
{
  arr_u8_32 in_a, in_b;
  _Bool lex = cxx_memcmp(in_a._, in_b._, 32) < 0;
  unsigned borrow = 0;
  for (int i = 31; i >= 0; --i) {
    unsigned x = in_a._[i], y = (unsigned)in_b._[i] + borrow;
    borrow = x < y;
  }
  __CPROVER_assert(lex == (borrow != 0), "lexicographic order of big-endian byte arrays is numeric order");
  _Bool eq = cxx_memcmp(in_a._, in_b._, 32) == 0;
  __CPROVER_assert(!(eq && lex), "strict");
  CANARY_POINT();
}
