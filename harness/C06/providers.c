/* C06 (E2, real code with container models; table_ in the single-key view; at most H providers in the chunk's list): from any
   well-formed state of the chunk's locator (any number <= H of providers with distinct ids and arbitrary deadlines, arbitrary
   locator deadline -- every such state is reachable by add_contact / withdraw_contact), each operation treats EVERY provider by its
   own deadline only:
     add_contact      the announcer is listed once with deadline now + ttl, everybody else is kept unchanged
     sweep_expired    keeps every provider whose own deadline is in the future, whatever the others (or the locator) say
     find_providers   returns exactly the providers whose deadline is in the future
     withdraw_contact removes the named provider only                                                                  */
#include "kad_providers.c"
#include "common.h"
#ifndef H
#define H 3
#endif
#define NS 1000000000l
static KademliaTable *tab; static PeerContact old[H + 1]; static uint64_t old_n; static _Bool old_present;
static int64_t t_now;
static void setup(void)
{
  static KademliaTable tab_obj; static PeerContact st[CXX_VEC_CAP];
  { KademliaTable any_tab; tab_obj = any_tab; }                                 /* arbitrary contents */
  for (int i = 0; i < CXX_VEC_CAP; ++i) { PeerContact any_c; st[i] = any_c; }
  tab = &tab_obj;
  { map_str_ChunkLocator_ent z = {0}; tab_obj.table_.e[1] = z; }                 /* the storage behind end() is never read */
  { map_str_KademliaTable__KeyShardRecord_ent z = {0}; tab_obj.shard_table_.e[1] = z; tab_obj.shard_table_.e[0].second.shards = z.second.shards; }
  __CPROVER_assume(tab->table_.n <= 1 && tab->shard_table_.n <= 1);
  uint64_t n; __CPROVER_assume(n <= H);
  tab->table_.e[0].second.holders.p = st; tab->table_.e[0].second.holders.n = n; tab->table_.e[0].second.holders.cap = CXX_VEC_CAP;
  if (tab->table_.n == 1) __CPROVER_assume(n >= 1);          /* a locator without providers is never kept (erased by every operation that empties it) */
  for (int i = 0; i < H; ++i) for (int j = 0; j < i; ++j)
    if ((uint64_t)i < n) __CPROVER_assume(st[i].id._[0] != st[j].id._[0]);    /* distinct ids (they differ in byte 0: enough for the harness) */
  /* provider ids range over 256 values: byte 0 symbolic, bytes 1..31 zero (the code only compares ids for equality) */
  for (int i = 0; i < H; ++i) for (int k = 1; k < 32; ++k) st[i].id._[k] = 0;
  for (int i = 0; i < H; ++i) { old[i] = st[i]; __CPROVER_assume(st[i].expires_at >= 0 && st[i].expires_at <= 4000000000000000000l); }
  old_n = tab->table_.n ? n : 0; old_present = tab->table_.n == 1;
  __CPROVER_assume(t_now >= 0 && t_now <= 4000000000000000000l);
  __g_clock_steady = t_now; __g_clock_fixed = 1;
  __CPROVER_assume(covers());
}
static _Bool same_id(const PeerContact *a, const PeerContact *b) { for (int k = 0; k < 32; ++k) if (a->id._[k] != b->id._[k]) return 0; return 1; }
/* number of entries of the chunk's current provider list with c's id, and the deadline of the first of them */
static int listed_id(const PeerContact *c)
{
  int m = 0;
  if (tab->table_.n == 0) return 0;
  vec_PeerContact *h = &tab->table_.e[0].second.holders;
  for (uint64_t j = 0; j < H + 1; ++j) if (j < h->n && same_id(&h->p[j], c)) m++;
  return m;
}
static int64_t deadline_of(const PeerContact *c)
{
  if (tab->table_.n == 0) return -1;
  vec_PeerContact *h = &tab->table_.e[0].second.holders;
  for (uint64_t j = 0; j < H + 1; ++j) if (j < h->n && same_id(&h->p[j], c)) return h->p[j].expires_at;
  return -1;
}
/* c (id and deadline) is listed exactly once / not at all */
static int listed(const PeerContact *c) { int m = listed_id(c); return m == 1 ? (deadline_of(c) == c->expires_at ? 1 : 0) : m; }
/* representation invariant of a locator: its deadline covers the deadline of every provider it lists (sweep_expired drops the
   whole locator at the locator's deadline, so this is what makes that step safe) */
static _Bool covers(void)
{
  if (tab->table_.n == 0) return 1;
  vec_PeerContact *h = &tab->table_.e[0].second.holders;
  for (uint64_t j = 0; j < H + 1; ++j) if (j < h->n && h->p[j].expires_at > tab->table_.e[0].second.expires_at) return 0;
  return 1;
}
static uint64_t listed_total(void) { return tab->table_.n ? tab->table_.e[0].second.holders.n : 0; }

static void body_add(void)
{
  arr_u8_32 in_chunk; PeerContact in_c; int64_t in_ttl; __CPROVER_assume(in_ttl >= 0 && in_ttl <= 1000000000l);
  for (int k = 1; k < 32; ++k) in_c.id._[k] = 0;
  KademliaTable__add_contact(tab, &in_chunk, in_c, in_ttl);
  PeerContact want = in_c; want.expires_at = t_now + in_ttl * NS;
  __CPROVER_assert(tab->table_.n == 1 && listed_id(&in_c) == 1, "add_contact: the announcer is listed exactly once");
#ifdef DEADLINE_ONLY
  __CPROVER_assert(deadline_of(&in_c) == t_now + in_ttl * NS, "add_contact: with deadline now + ttl (its most recent announcement)");
#endif
  uint64_t g; __CPROVER_assume(g < old_n);
  if (!same_id(&old[g], &in_c)) __CPROVER_assert(listed(&old[g]) == 1, "add_contact: every other provider stays listed with its own deadline");
  __CPROVER_assert(covers(), "add_contact keeps the locator's deadline at or after the deadline of every provider it lists (otherwise the next sweep drops live providers)");

}
static void body_sweep(void)
{
  KademliaTable__sweep_expired(tab);
  uint64_t g; __CPROVER_assume(g < old_n);
  if (t_now < old[g].expires_at) __CPROVER_assert(listed(&old[g]) == 1, "sweep_expired never removes a provider before its own deadline, whatever other providers of the chunk announced");
  else __CPROVER_assert(listed(&old[g]) == 0, "sweep_expired removes every provider whose deadline has passed");
  __CPROVER_assert(covers(), "sweep_expired keeps the locator's deadline at or after the deadline of every provider it lists");
}
static void body_find(void)
{
  arr_u8_32 in_chunk;
  vec_PeerContact r = KademliaTable__find_providers(tab, &in_chunk);
  uint64_t g; __CPROVER_assume(g < old_n);
  int m = 0; for (uint64_t j = 0; j < H + 1; ++j) if (j < r.n && same_id(&r.p[j], &old[g]) && r.p[j].expires_at == old[g].expires_at) m++;
  __CPROVER_assert(m == (t_now < old[g].expires_at ? 1 : 0), "find_providers returns a provider exactly when its own deadline is in the future");
  uint64_t live = 0; for (uint64_t j = 0; j < H; ++j) if (j < old_n && t_now < old[j].expires_at) live++;
  __CPROVER_assert(r.n == live, "find_providers returns nobody else");
  __CPROVER_assert(covers(), "find_providers keeps the locator's deadline at or after the deadline of every provider it lists");
}
static void body_withdraw(void)
{
  arr_u8_32 in_chunk; arr_u8_32 in_who;
  for (int k = 1; k < 32; ++k) in_who._[k] = 0;
  KademliaTable__withdraw_contact(tab, &in_chunk, &in_who);
  uint64_t g; __CPROVER_assume(g < old_n);
  PeerContact w; w.id = in_who;
  if (same_id(&old[g], &w)) __CPROVER_assert(listed(&old[g]) == 0, "withdraw_contact removes the named provider");
  else __CPROVER_assert(listed(&old[g]) == 1, "withdraw_contact leaves every other provider listed with its own deadline");
  __CPROVER_assert(covers(), "withdraw_contact keeps the locator's deadline at or after the deadline of every provider it lists (otherwise the next sweep drops live providers)");
}

/* symbolic execution keeps the single-key views cheap when "entry present / absent" is a constant on each path: the four harnesses
   run their body once per case (all cases are covered; the split is not a restriction) */
#define SPLIT(body) do { setup(); \
  if (tab->table_.n) { tab->table_.n = 1; if (tab->shard_table_.n) { tab->shard_table_.n = 1; body(); } else { tab->shard_table_.n = 0; body(); } } \
  else { tab->table_.n = 0; if (tab->shard_table_.n) { tab->shard_table_.n = 1; body(); } else { tab->shard_table_.n = 0; body(); } } } while (0)
void h_add(void) { SPLIT(body_add); CANARY_POINT(); }
void h_sweep(void) { SPLIT(body_sweep); CANARY_POINT(); }
void h_find(void) { SPLIT(body_find); CANARY_POINT(); }
void h_withdraw(void) { SPLIT(body_withdraw); CANARY_POINT(); }

/* the 20-provider cap: from a list that is exactly full (CAPN providers, distinct ids, arbitrary deadlines) one more announcement by a new
   peer leaves CAPN providers, and every provider that was dropped expires no later than every provider that was kept */
#ifdef CAPN
void h_cap(void)
{
  static KademliaTable tab_obj; static PeerContact st[CAPN + 2];
  { KademliaTable any_tab; tab_obj = any_tab; }
  for (int i = 0; i < CAPN + 2; ++i) { PeerContact any_c; st[i] = any_c; for (int k = 1; k < 32; ++k) st[i].id._[k] = 0; }
  tab = &tab_obj;
  { map_str_ChunkLocator_ent z = {0}; tab_obj.table_.e[1] = z; }
  tab_obj.table_.n = 1; tab_obj.shard_table_.n = 0;
  tab_obj.table_.e[0].second.holders.p = st; tab_obj.table_.e[0].second.holders.n = CAPN; tab_obj.table_.e[0].second.holders.cap = CAPN + 2;
  for (int i = 0; i < CAPN; ++i) { __CPROVER_assume(st[i].id._[0] == i + 1 && st[i].expires_at >= 0 && st[i].expires_at <= 4000000000000000000l); old[i % (H + 1)] = st[i]; }
  __CPROVER_assume(t_now >= 0 && t_now <= 4000000000000000000l);
  __g_clock_steady = t_now; __g_clock_fixed = 1;
  static PeerContact before[CAPN + 1];
  for (int i = 0; i < CAPN; ++i) before[i] = st[i];
  arr_u8_32 in_chunk; PeerContact in_c; int64_t in_ttl; __CPROVER_assume(in_ttl >= 0 && in_ttl <= 1000000000l);
  for (int k = 1; k < 32; ++k) in_c.id._[k] = 0;
  in_c.id._[0] = 200;                                     /* a peer that is not listed yet */
  KademliaTable__add_contact(tab, &in_chunk, in_c, in_ttl);
  vec_PeerContact *h = &tab->table_.e[0].second.holders;
  __CPROVER_assert(tab->table_.n == 1 && h->n == CAPN, "the provider list never grows beyond the cap");
  /* the smallest deadline among the kept ones is not smaller than the deadline of any provider that is gone */
  uint64_t g; __CPROVER_assume(g < CAPN);
  _Bool kept = 0; for (uint64_t j = 0; j < CAPN; ++j) if (h->p[j].id._[0] == before[g].id._[0]) kept = 1;
  uint64_t k2; __CPROVER_assume(k2 < CAPN);
  if (!kept) __CPROVER_assert(h->p[k2].expires_at >= before[g].expires_at, "a provider is dropped at the cap only if every provider that is kept expires at least as late");
  CANARY_POINT();
}
#endif
