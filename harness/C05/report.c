/* C05 (expiry reported exactly once, however it was first noticed), E2: the real ChunkStore::get_record and sweep_expired with the
   container models, chunks_ in the single-key view -- THE chunk.  History: the chunk is stored with deadline d; at t1 a lookup may or
   may not happen; at t2 >= t1 the cleanup sweep runs; at t3 >= t2 it runs again.  If the chunk expired by t2, the first sweep reports
   its id exactly once -- also when the lookup had already noticed the expiry and dropped the record -- and the second sweep does not
   report it again; if it is still live at t2 nothing is reported and the record is kept. */
#include "chunkstore_e2.c"
#include "common.h"
static ChunkStore st;
static int count_id(vec_arr_u8_32 r, const arr_u8_32 *id)
{
  int m = 0;
  for (uint64_t j = 0; j < 3; ++j) if (j < r.n) { _Bool eq = 1; for (int k = 0; k < 32; ++k) if (r.p[j]._[k] != id->_[k]) eq = 0; if (eq) m++; }
  return m;
}
void h_report(void)
{
  { ChunkStore any; st = any; }
  ChunkStore *s = &st;
  _Bool in_lookup; int64_t t1, t2, t3;
  __CPROVER_assume(0 <= t1 && t1 <= t2 && t2 <= t3 && t3 <= 4000000000000000000l);
  { map_str_ChunkRecord_ent z = {0}; s->chunks_.e[1] = z; }
  s->chunks_.n = 1;                                   /* the chunk is stored */
  s->chunks_.e[0].second.persisted = 0; s->persistent_enabled_ = 0;
#ifdef HAS_PENDING
  s->expired_unreported_.n = 0; s->expired_unreported_.p = 0; s->expired_unreported_.cap = 0;   /* nothing pending from earlier lookups */
#endif
  arr_u8_32 in_id = s->chunks_.e[0].second.id;
  int64_t d = s->chunks_.e[0].second.expires_at; __CPROVER_assume(d >= 0 && d <= 4000000000000000000l);
  __g_clock_fixed = 1;
  if (in_lookup) { __g_clock_steady = t1; (void)ChunkStore__get_record(s, &in_id); }
  __g_clock_steady = t2;
  vec_arr_u8_32 first = ChunkStore__sweep_expired(s);
  __g_clock_steady = t3;
  vec_arr_u8_32 second = ChunkStore__sweep_expired(s);
  if (d <= t2) {
    __CPROVER_assert(count_id(first, &in_id) == 1, "a chunk that expired by the time of the cleanup sweep is reported exactly once, also when a lookup noticed the expiry first");
    __CPROVER_assert(count_id(second, &in_id) == 0, "and is not reported again by the next sweep");
    __CPROVER_assert(s->chunks_.n == 0, "no expired chunk is held after the sweep");
  } else {
    __CPROVER_assert(count_id(first, &in_id) == 0, "a live chunk is not reported");
    if (d > t3) __CPROVER_assert(s->chunks_.n == 1, "a live chunk is kept");
  }
  CANARY_POINT();
}
