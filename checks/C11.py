from vdriver import Group
META = {'level': 'other'}
def _replay(scn):
    import sys, os
    root = os.path.dirname(os.path.dirname(os.path.abspath(__file__)))
    sys.path.insert(0, os.path.join(root, 'replay'))
    import replaylib as R
    exe = R.build_full('C11.cpp', with_daemon=False)
    rc, out = R.run(exe, [scn], timeout=240)
    last = [l for l in out.strip().splitlines() if l.strip()][-1:] or ['']
    return rc == 1, last[0][:400]
def groups(tier):
    K = dict(unwind=3, kind='skeleton', checks=[], skeleton=True, timeout=900, backend=['sat', 'cadical'],
             bound='control-flow skeleton (E3) with value tags; loops unrolled twice')
    return [Group('store.seal_and_split', 'node_store', 'C02/store_path.c', entry='h_store_path', replay='roundtrip',
                  clause='the bytes a store keeps are the output of encrypt_with_key under the generated key, and that same key is what '
                         'Shamir::split turns into the manifest shares', **K),
            Group('replica.hash_gate', 'node_admit', 'C21/admit.c', entry='h_receive', replay='tamper',
                  clause='a replica is stored, announced, cached or returned only after its decryption hashed EQUAL to the manifest content hash '
                         '(and the manifest decoded, met its threshold and is unexpired)', **K)] + _more(tier)
def _more(tier):
    return [Group('shards.publish_lookup', 'kad_shards', 'C11/shards.c', entry='h_publish_lookup', replace=['chunk_id_to_string'], unwind=8, kind='unbounded', backend=['cvc5', 'z3', 'sat'], replay='republish', timeout=300,
                  defines=['CXX_FIXED_STORAGE', 'CXX_VEC_CAP=4'],
                  bound=None, clause='publish_shards (E2, all prior entry states, all TTLs 0..1e9 s, all clock readings): the entry holds exactly the published '
                         'share set, threshold and share count with deadline now + ttl; shard_record returns exactly that before the deadline and nothing after')]
def replay(group, trace):
    """two REAL nodes: store on S, import on R; round trip and tamper rejection"""
    return _replay(group.replay)
