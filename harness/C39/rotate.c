/* C39 (necessary condition): for the two ends of a session to hold the same key after a rotation, the new key must be a function
   of state both ends share -- the shared secret and the rotation counter.  derive_key is run twice with the same secret and
   counter and two arbitrary local timestamps (each end's own steady clock reading at ITS tick): the HMAC input must not differ. */
#include "keymgr.c"
#include "common.h"
/* one end's rotation: returns the HMAC input byte at the ghost position */
static uint8_t one_end(crypto__Key *secret, uint64_t counter, int64_t local_time, uint64_t *len)
{
  arr_u8_32 k = network__KeyManager__derive_key(secret, counter, local_time);
  *len = __g_h_datan;
  return __g_h_byte;
}
void h_rotate_agree(void)
{
  crypto__Key *in_secret = malloc(sizeof(crypto__Key)); uint64_t in_counter; int64_t in_ta, in_tb;
  __CPROVER_assume(in_secret != 0 && __g_h_pos < 16);
  __g_h_calls = 0;
  uint64_t len_a, len_b;
  uint8_t byte_a = one_end(in_secret, in_counter, in_ta, &len_a);
  uint8_t byte_b = one_end(in_secret, in_counter, in_tb, &len_b);
  __CPROVER_assert(len_a == 16 && len_b == 16, "16 bytes of key material are authenticated");
  __CPROVER_assert(byte_a == byte_b, "the rotated key is derived only from state both ends share (shared secret, rotation counter), not from a local clock reading");
  CANARY_POINT();
}
void h_rotate_step(void)
{ /* rotate_if_needed: no rotation before the interval elapsed; a rotation bumps the counter and re-derives from the shared secret */
  network__KeyManager *in_km = malloc(sizeof(*in_km)); arr_u8_32 in_peer; int64_t in_now;
  __CPROVER_assume(in_km && in_km->contexts_.n <= 1);
  __CPROVER_assume(in_km->rotation_interval_ >= 5 && in_km->rotation_interval_ <= 3600);
  __CPROVER_assume(in_now >= 0 && in_now <= 4000000000000000000l);
  uint64_t c0 = in_km->contexts_.e[0].second.counter; int64_t last0 = in_km->contexts_.e[0].second.last_rotation;
  __CPROVER_assume(last0 >= 0 && last0 <= in_now && c0 < 0xFFFFFFFFFFFFul);
  _Bool present = in_km->contexts_.n == 1;
  __g_h_calls = 0;
  opt_arr_u8_32 r = network__KeyManager__rotate_if_needed(in_km, &in_peer, in_now);
  _Bool due = present && (in_now - last0) >= in_km->rotation_interval_ * 1000000000l;
  __CPROVER_assert(r.has == due, "a key is rotated exactly when the peer is known and the rotation interval has elapsed");
  if (due) __CPROVER_assert(in_km->contexts_.e[0].second.counter == c0 + 1 && __g_h_calls == 1 && __g_h_key == in_km->contexts_.e[0].second.shared_secret.bytes._, "rotation bumps the counter and derives from the session's shared secret");
  else __CPROVER_assert(__g_h_calls == 0 && in_km->contexts_.e[0].second.counter == c0, "otherwise nothing changes");
  CANARY_POINT();
}
