/* C27 (leaf): constant_time_equal(expected, provided) <=> the two strings are equal, for strings of any length (loop contract) */
#include "ctrl_token.c"
#include "common.h"
void h_cte(void)
{
  str *in_e = malloc(sizeof(str)), *in_p = malloc(sizeof(str));
  __CPROVER_assume(in_e && in_p);
  __CPROVER_assume(in_e->n < 0x0000FFFFFFFFFFFFul && in_p->n < 0x0000FFFFFFFFFFFFul);
  in_e->p = malloc(in_e->n ? in_e->n : 1); in_p->p = malloc(in_p->n ? in_p->n : 1);
  __CPROVER_assume(in_e->p && in_p->p);
  _Bool r = daemon__constant_time_equal(in_e, in_p);
  CANARY_POINT();
}
