from vdriver import Group
import importlib.util, os
META = {'level': 'other'}
def _c16():
    spec = importlib.util.spec_from_file_location('chk_C16_for_C35', os.path.join(os.path.dirname(os.path.abspath(__file__)), 'C16.py'))
    m = importlib.util.module_from_spec(spec)
    spec.loader.exec_module(m)
    return m
def groups(tier):
    return _groups(tier) + [g for g in _c16().groups(tier)]     # memory safety / totality of the wire decoder every remote byte goes through (C16's obligations)
def _groups(tier):
    K = dict(unit='node_exc', harness='C35/exc.c', unwind=3, kind='skeleton', checks=[], skeleton=True, replay='chunk', timeout=900,
             backend=['sat', 'cadical'], bound='control-flow skeleton (E3), loops unrolled twice; throwing calls: Shamir::combine/split, decode_manifest, std::stoul')
    return [Group('transport_message.no_escape', entry='h_message',
                  clause='no exception escapes Node::handle_transport_message (request / chunk / acknowledge / announce handling and everything they call in Node.cpp)', **K),
            Group('transport_handshake.no_escape', entry='h_handshake',
                  clause='no exception escapes Node::handle_transport_handshake', **K),
            Group('control.no_escape', unit='ctrl_exc', harness='C35/exc.c', entry='h_control', defines=['CTRL'], unwind=3, kind='skeleton', checks=[],
                  skeleton=True, replay='control', timeout=900, bound='control-flow skeleton (E3), loops unrolled twice; throwing calls: '
                  'std::filesystem::absolute, decode_manifest, write_file_bytes, std::stoul/stoull',
                  clause='no exception escapes the control server accept loop (handle_client and the command handlers)')]


def replay(group, trace):
    if group.name.startswith('decode'):
        return _c16().replay(group, trace)
    """the REAL Node: established session, cached manifest with a repeated shard index, signed CHUNK message"""
    import sys, os
    root = os.path.dirname(os.path.dirname(os.path.abspath(__file__)))
    sys.path.insert(0, os.path.join(root, 'replay'))
    import replaylib as R
    if group.replay == 'control':
        import random
        exe = R.build_full('C35ctl.cpp')
        port = 22000 + (os.getpid() * 13 + random.randint(0, 9000)) % 15000
        rc, out = R.run(exe, [port], timeout=60)
        lines = [l for l in out.strip().splitlines() if l.strip()]
        if rc == 0 and lines and lines[-1].startswith('SURVIVED'):
            return False, lines[-1][:300]
        died = rc not in (0, 1, 2)
        why = ' | '.join(lines[-3:])[:500]
        return (rc == 1 or died), (f'the process died (exit {rc}: terminate after an uncaught exception): ' if died else '') + why
    # which throw site does the counterexample use?  (numbered in the skeleton's meta file)
    import json
    site = R.num(((trace or {}).get('assignments') or {}).get('__skel_exc'), 0)
    scenario = 'chunk'
    try:
        bdir = os.environ.get('VERIF_BUILD') or os.path.join(root, 'build')
        sites = {s['site']: s for s in json.load(open(os.path.join(bdir, group.unit + '.meta.json'))).get('throw_sites', [])}
        what = sites.get(site, {}).get('what', '')
        scenario = {'Shamir::combine': 'chunk', 'stoul': 'endpoint', 'stoull': 'endpoint', 'stoi': 'endpoint', 'decode_manifest': 'manifest'}.get(what, 'chunk')
    except Exception:
        pass
    exe = R.build_full('C35.cpp', with_daemon=False, exclude=['src/core/Node.cpp'])
    rc, out = R.run(exe, [scenario], timeout=120)
    last = [l for l in out.strip().splitlines() if l.strip()][-1:] or ['']
    return rc == 1, last[0][:400]
