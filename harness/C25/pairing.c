/* C25 (pairing bookkeeping; E2: the real RelayServer::handle_register / handle_connect / remove_registration / find_registered with
   shared_ptr / weak_ptr lowered to pointers; registered_ in the single-key view -- THE peer id being registered / looked up).
   Three client sessions S (the one whose line is being handled), A and B stand for "any sessions"; every pointer among them is
   symbolic.  Representation invariant of the server between two events:
     I1  pairings are symmetric:                x.partner == y  =>  y.partner == x
     I2  a session listed as registered is unclaimed and in state Registered (so it can be claimed by at most ONE connector)
     I3  a session that still awaits its first command has no partner
   One REGISTER or CONNECT line from a session in a line-parsing state (AwaitingCommand / Registered) preserves I1-I3, from every state
   that satisfies them.  By induction over events, a registered peer is claimed by at most one connector at a time and pairings stay
   symmetric. */
#include "relay_pairing.c"
#include "common.h"
typedef relay__RelayServer__ClientSession CS;
static CS ses[3]; static relay__RelayServer srv;
static CS *pick(uint8_t k) { return k == 0 ? 0 : &ses[(k - 1) % 3]; }
static _Bool inv(void)
{
  for (int i = 0; i < 3; ++i) {
    CS *p = ses[i].partner;
    if (p != 0 && (p == &ses[i] || p->partner != &ses[i])) return 0;                                        /* I1 */
    if (ses[i].state == relay__RelayServer__SessionState__AwaitingCommand && p != 0) return 0;              /* I3 */
  }
  if (srv.registered_.n == 1) {
    CS *r = srv.registered_.e[0].second;
    if (r != 0 && (r->partner != 0 || r->state != relay__RelayServer__SessionState__Registered)) return 0;  /* I2 */
  }
  return 1;
}
static void setup(void)
{
  { CS a[3]; for (int i = 0; i < 3; ++i) ses[i] = a[i]; relay__RelayServer s; srv = s; }
  uint8_t p0, p1, p2, r;
  ses[0].partner = pick(p0); ses[1].partner = pick(p1); ses[2].partner = pick(p2);
  __CPROVER_assume(srv.registered_.n <= 1);
  srv.registered_.e[0].second = pick(r);
  { map_str_relay__RelayServer__ClientSessionp_ent z = {0}; srv.registered_.e[1] = z; }
  for (int i = 0; i < 3; ++i) {
    __CPROVER_assume(ses[i].state >= 0 && ses[i].state <= 3);
    static char hexbuf[3][8]; ses[i].peer_hex.p = hexbuf[i]; __CPROVER_assume(ses[i].peer_hex.n <= 4); ses[i].peer_hex.cap = 7;
    ses[i].connect_self.p = 0; ses[i].connect_self.n = 0; ses[i].connect_self.cap = 0;
  }
  __CPROVER_assume(inv());
}
#define SPLIT(stmt) do { if (srv.registered_.n) { srv.registered_.n = 1; stmt; } else { srv.registered_.n = 0; stmt; } } while (0)
void h_register(void)
{
  setup();
  CS *s = &ses[0]; static char text[8]; static str hex = {text, 4, 7};
  { char a[8]; for (int k = 0; k < 8; ++k) text[k] = a[k]; }
  __CPROVER_assume(s->state == relay__RelayServer__SessionState__AwaitingCommand || s->state == relay__RelayServer__SessionState__Registered);   /* lines are parsed in these states only */
  SPLIT(relay__RelayServer__handle_register(&srv, &s, &hex));
  if (srv.registered_.n == 1 && srv.registered_.e[0].second == s) { CANARY_AT("a REGISTER that lists the session"); }
  __CPROVER_assert(inv(), "REGISTER keeps pairings symmetric and lists only unclaimed sessions as registered (a claimed peer cannot be claimed again)");
  CANARY_POINT();
}
void h_connect(void)
{
  setup();
  CS *s = &ses[0]; static char t1[8], t2[8]; static str self_hex = {t1, 4, 7}, target_hex = {t2, 4, 7};
  { char a[8], b[8]; for (int k = 0; k < 8; ++k) { t1[k] = a[k]; t2[k] = b[k]; } }      /* arbitrary ids (equal or different) */
  __CPROVER_assume(s->state == relay__RelayServer__SessionState__AwaitingCommand || s->state == relay__RelayServer__SessionState__Registered);
  CS *listed = srv.registered_.n ? srv.registered_.e[0].second : 0; CS *before = s->partner;
  SPLIT(relay__RelayServer__handle_connect(&srv, &s, &self_hex, &target_hex));
  __CPROVER_assert(inv(), "CONNECT keeps pairings symmetric and lists only unclaimed sessions as registered");

  if (s->partner != before) { CANARY_AT("a CONNECT that pairs the connector"); }
  if (s->partner != before) __CPROVER_assert(s->partner == listed && srv.registered_.n == 0, "a connector is paired with the session that was listed for the target, which is then no longer listed");
  CANARY_POINT();
}

/* disconnects: when a session goes away, detach_partner clears the partner's pointer; a partner whose bridge was being set up or was
   established (AwaitingIdentity / Bridged) is disconnected too; a claimed-but-not-yet-bridged registered partner becomes claimable again */
void h_detach(void)
{
  setup();
  CS *s = &ses[0]; CS *p = s->partner;
  int state_p = p ? p->state : -1;
  g_closed = 0; g_closed_who = 0;
  SPLIT(relay__RelayServer__detach_partner(&srv, &s));
  if (p != 0) {
    CANARY_AT("a disconnecting session that has a partner");
    __CPROVER_assert(p->partner == 0, "the partner of a session that goes away no longer points at it");
    if (state_p == relay__RelayServer__SessionState__Bridged || state_p == relay__RelayServer__SessionState__AwaitingIdentity)
      __CPROVER_assert(g_closed == 1 && g_closed_who == (void *)p, "when one side of a bridge (established or being set up) disconnects, the other side is disconnected");
    if (state_p == relay__RelayServer__SessionState__Registered && p->peer_hex.n > 0)
      __CPROVER_assert(g_closed == 0 && srv.registered_.n == 1 && srv.registered_.e[0].second == p, "a registered peer whose connector went away before the bridge existed is listed again, not disconnected");
  } else __CPROVER_assert(g_closed == 0, "a session without a partner disconnects nobody");
  CANARY_POINT();
}
