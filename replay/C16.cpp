// native replay/search for C16: the REAL protocol::decode on structured byte strings (exact-size heap buffers, run under ASan):
// no exception, and encode(decode(buf)) must be a prefix of buf.  args: seed iterations [only_type]
#include "ephemeralnet/protocol/Message.hpp"
#include <cstdio>
#include <cstdlib>
#include <cstring>
#include <memory>
#include <random>
using namespace ephemeralnet;
int main(int argc, char** argv) {
    if (argc < 3) return 2;
    std::mt19937_64 rng(std::strtoull(argv[1], nullptr, 0));
    const long iters = std::atol(argv[2]);
    const int only = argc > 3 ? std::atoi(argv[3]) : -1;
    for (long it = 0; it < iters; ++it) {
        const unsigned type = only >= 0 ? only : rng() % 8;
        const unsigned version = rng() % 6;
        std::size_t n = 2 + rng() % 200;
        // bias towards exactly-fitting messages of each type
        const std::size_t fit[] = {0, 2 + 88, 2 + 64, 2 + 40, 2 + 65, 2 + 13, 2 + 6, 0};
        if (rng() % 2) { const std::size_t f = fit[type % 8] + rng() % 12; n = f > 9 ? f - rng() % 10 : f; }   // exact, longer and truncated frames
        std::unique_ptr<std::uint8_t[]> buf(new std::uint8_t[n ? n : 1]);
        for (std::size_t i = 0; i < n; ++i) buf[i] = static_cast<std::uint8_t>(rng() % 5 == 0 ? rng() : rng() % 3);
        if (n > 0) buf[0] = static_cast<std::uint8_t>(version);
        if (n > 1) buf[1] = static_cast<std::uint8_t>(type);
        if (type == 1 && n >= 18) {
            // announce length fields: small consistent values, or combinations whose 32-bit sum wraps
            static const std::uint32_t wraps[][3] = {{0x80000000u, 0x80000000u, 0}, {0xFFFFFFF0u, 8, 8}, {0xFFFFFFFFu, 1, 0}, {0x7FFFFFFFu, 0x7FFFFFFFu, 2}};
            std::uint32_t l[3] = {static_cast<std::uint32_t>(rng() % 4), static_cast<std::uint32_t>(rng() % 4), static_cast<std::uint32_t>(rng() % 4)};
            if (rng() % 4 == 0) { const auto& w = wraps[rng() % 4]; l[0] = w[0]; l[1] = w[1]; l[2] = w[2]; }
            for (int f = 0; f < 3; ++f) for (int b = 0; b < 4; ++b) buf[2 + 4 + 4 * f + b] = static_cast<std::uint8_t>(l[f] >> (24 - 8 * b));
        }
        if (type == 3 && n >= 10 && rng() % 2) { const std::uint32_t dl = rng() % 6; for (int b = 0; b < 4; ++b) buf[2 + 4 + b] = static_cast<std::uint8_t>(dl >> (24 - 8 * b)); }
        try {
            const auto m = protocol::decode(std::span<const std::uint8_t>(buf.get(), n));
            if (!m.has_value()) continue;
            const auto re = protocol::encode(*m);
            if (re.size() > n || std::memcmp(re.data(), buf.get(), re.size()) != 0) {
                std::size_t at = 0; while (at < re.size() && at < n && re[at] == buf[at]) ++at;
                std::printf("INPUT type=%u version=%u n=%zu\nREPRODUCED: re-encoding the accepted message is not a prefix of the input: byte %zu is 0x%02x in the input, 0x%02x re-encoded\n",
                            type, version, n, at, at < n ? buf[at] : 0, at < re.size() ? re[at] : 0);
                return 1;
            }
        } catch (const std::exception& e) {
            std::printf("INPUT type=%u version=%u n=%zu\nREPRODUCED: exception %s\n", type, version, n, e.what());
            return 1;
        }
    }
    std::printf("no failing input in %ld byte strings\n", iters);
    return 0;
}
