from vdriver import Group
META = {'level': 'other'}
def groups(tier):
    K = dict(unit='uploads', harness='C23/slots.c', replace=['peer_id_to_string', 'chunk_id_to_string', 'Node__make_upload_key'], unwind=4,
             kind='unbounded', timeout=300, backend=['sat', 'cadical', 'cvc5'])
    return [Group('slots.start', entry='h_start', replay='repeat', clause='note_upload_start preserves counter(peer) == number of the peer\'s active uploads, also for a repeated (peer, chunk)', **K),
            Group('slots.end', entry='h_end', clause='note_upload_end releases exactly the slot of the upload that ended; nothing changes when it was not active', **K),
            Group('slots.gate', entry='h_can_dispatch', replay='gate', clause='can_dispatch_upload <=> in-use count below the per-peer limit (limit 0 = unlimited)', **K),
            Group('timeouts.prune', 'uploads_prune', 'C23/prune.c', entry='h_prune', stub=['Node__note_upload_end'], unwind=4, kind='unbounded', timeout=300,
                  backend=['cvc5', 'z3', 'sat'], checks=['--bounds-check', '--pointer-check'],
                  clause='prune_stale_uploads ends THE upload (single-key view) exactly when the transfer timeout is positive and has passed, for its own (peer, chunk), as unsuccessful'),
            Group('timeouts.every_tick', 'uploads_tick', 'C23/tick.c', entry='h_tick', unwind=3, kind='skeleton', checks=[], skeleton=True, timeout=300, backend=['sat', 'cadical'],
                  replay='idle_timeout', bound='control-flow skeleton (E3); loops unrolled twice',
                  clause='every path through Node::tick runs the transfer-timeout pruning pass (also with an empty upload queue)')]


def replay(group, trace):
    """the REAL Node: the same (peer, chunk) upload started twice, then acknowledged twice"""
    import sys, os
    if group.replay not in ('repeat', 'idle_timeout', 'gate'):
        return None, 'no native replay for this group'
    root = os.path.dirname(os.path.dirname(os.path.abspath(__file__)))
    sys.path.insert(0, os.path.join(root, 'replay'))
    import replaylib as R
    exe = R.build_full('C23.cpp', with_daemon=False)
    rc, out = R.run(exe, [] if group.replay == 'repeat' else [group.replay], timeout=60)
    last = [l for l in out.strip().splitlines() if l.strip()][-1:] or ['']
    return rc == 1, last[0][:400]
