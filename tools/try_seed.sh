#!/bin/bash
# try_seed.sh <seed-dir-name> <PROP> [check args...] : apply a seeded change to /repo, run the check, undo the change
S=/verif/seeded/$1; P=$2; shift 2
cd /repo || exit 2
git diff --quiet || { echo "repo dirty"; exit 2; }
git apply "$S/patch.diff" || { echo "patch does not apply"; exit 2; }
cd /verif && ./check "$P" "$@" > /tmp/p/seed-$(basename $S)-$P.log 2>&1; rc=$?
git -C /repo checkout -- .
echo "seed $(basename $S) property $P -> exit $rc"
grep -E "VIOLATION|UNDECIDED|KNOWN" /tmp/p/seed-$(basename $S)-$P.log | cut -c1-250 | head -5
grep -E "failed obligation" /tmp/p/seed-$(basename $S)-$P.log | cut -c1-200 | head -4
exit $rc
