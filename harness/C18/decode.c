/* C18: decode_manifest is total and free of undefined behaviour.
   h_decode : decode_manifest on "eph://" + any text, with base64_decode replaced by its contract (ANY payload of at most
              PAYLOAD_CAP bytes, or invalid_argument): returns a manifest or raises invalid_argument only; no out-of-bounds
              access, no signed overflow (extreme expiry timestamps included), for every payload content and length <= cap.
   h_base64 : base64_decode on every text of at most B64MAX characters: memory safe, only invalid_argument. */
#include "manifest_dec.c"
#include "common.h"
void h_decode(void)
{
  str *in_uri = malloc(sizeof(str));
  __CPROVER_assume(in_uri != 0 && in_uri->n <= 0x0000FFFFFFFFFFFFul);
  in_uri->p = malloc(in_uri->n + 1);
  __CPROVER_assume(in_uri->p != 0);
  __exc = 0;
  protocol__Manifest m = protocol__decode_manifest(in_uri);
  __CPROVER_assert(__exc == 0 || __exc == EXC_invalid_argument, "decode_manifest raises nothing but invalid_argument");
  CANARY_POINT();
}
#ifndef B64MAX
#define B64MAX 16
#endif
void h_base64(void)
{
  char in_text[B64MAX + 1]; uint64_t in_n;
  __CPROVER_assume(in_n <= B64MAX);
  str t = {in_text, in_n, in_n};
  __exc = 0;
  vec_u8 r = protocol__base64_decode(&t);
  __CPROVER_assert(__exc == 0 || __exc == EXC_invalid_argument, "base64_decode raises nothing but invalid_argument");
  __CPROVER_assert(__exc != 0 || r.n <= (in_n / 4) * 3, "at most three bytes per four characters");
  __CPROVER_assert((in_n % 4 != 0) ==> (__exc == EXC_invalid_argument), "a length that is not a multiple of four is refused");
  CANARY_POINT();
}

/* h_decode_stub: the same obligation with base64_decode taken by its contract STUB (any payload of at most PAYLOAD_CAP bytes in a
   fixed buffer, or invalid_argument) and a tiny concrete-size URI text (its content beyond the scheme is irrelevant once the decoder
   is abstracted): keeps symbolic execution small.  VERSION1 restricts to version-1 payloads (header, shards; no metadata). */
void h_decode_stub(void)
{
  static char text[12]; static str uri;
  uint64_t in_n; __CPROVER_assume(in_n <= 10);
  { char any[12]; for (int k = 0; k < 12; ++k) text[k] = any[k]; }
  uri.p = text; uri.n = in_n; uri.cap = 11;
  { uint8_t any[PAYLOAD_CAP + 8]; for (int k = 0; k < PAYLOAD_CAP + 8; ++k) g_payload_buf[k] = any[k]; }
#ifdef VERSION1
  g_payload_buf[0] = 1;
#endif
  __exc = 0;
  protocol__Manifest m = protocol__decode_manifest(&uri);
  __CPROVER_assert(__exc == 0 || __exc == EXC_invalid_argument, "decode_manifest raises nothing but invalid_argument");
  CANARY_POINT();
}
