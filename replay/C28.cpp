// native replay for C28 (rate-limit key): a REAL Node + ControlServer WITHOUT a control token.  One client address sends STOREs,
// each with a different (meaningless) TOKEN header.  At most 6 may be accepted in 30 s.  exit 1 = more were accepted.
#include "ephemeralnet/core/Node.hpp"
#include "ephemeralnet/daemon/ControlPlane.hpp"
#include <cstdio>
#include <cstdlib>
#include <mutex>
#include <thread>
using namespace ephemeralnet;
int main(int argc, char** argv) {
    if (argc < 2) return 2;
    const auto port = static_cast<std::uint16_t>(std::atoi(argv[1]));
    Config config{};
    config.control_host = "127.0.0.1"; config.control_port = port; config.identity_seed = 9u;
    config.store_pow_difficulty = 0;
    PeerId id{}; id[0] = 0x28;
    Node node(id, config);
    std::mutex node_mutex;
    daemon::ControlServer server(node, node_mutex, []() {});
    server.start("127.0.0.1", port);
    std::this_thread::sleep_for(std::chrono::milliseconds(200));
    int accepted = 0, limited = 0, other = 0;
    for (int i = 0; i < 12; ++i) {
        daemon::ControlClient client("127.0.0.1", port, std::string("made-up-token-") + std::to_string(i));
        const std::vector<std::uint8_t> payload{static_cast<std::uint8_t>(i), 1, 2, 3};
        const auto r = client.send("STORE", {{"TTL", "120"}}, payload);
        if (!r.has_value()) { ++other; continue; }
        const auto code = r->fields.count("CODE") ? r->fields.at("CODE") : std::string("?");
        if (r->success) ++accepted; else if (code.find("RATE") != std::string::npos) ++limited; else { ++other; std::printf("STORE %d: %s\n", i, code.c_str()); }
    }
    server.stop();
    if (accepted > 6) { std::printf("REPRODUCED: %d STOREs from one client address were accepted within 30 s (limit 6) by varying the TOKEN header; %d rate-limited\n", accepted, limited); std::fflush(stdout); std::_Exit(1); }
    std::printf("%d accepted, %d rate-limited, %d other: the limit of 6 per address held\n", accepted, limited, other);
    std::fflush(stdout);
    std::_Exit(0);
}
