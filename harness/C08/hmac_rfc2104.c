/* C08: HmacSha256::compute is RFC 2104 over SHA-256 for every key length and data length; verify accepts exactly
   the 32-byte tag.  Sha256 is used through its event-log contract. */
#include "hmac.c"
#include "common.h"

void h_compute(void)
{
  uint64_t in_kn, in_dn;
  __CPROVER_assume(in_kn <= 0x0000FFFFFFFFFFFFul && in_dn <= 0x0000FFFFFFFFFFFFul);
  uint8_t *in_key = malloc(in_kn + 1), *in_data = malloc(in_dn + 1);
  __CPROVER_assume(in_key && in_data);
  __CPROVER_assume(__g_j < 64);
  __g_nev = 0;
  arr_u8_32 r = crypto__HmacSha256__compute((span_u8){in_key, in_kn}, (span_u8){in_data, in_dn});
  uint64_t j = __g_j;
  uint64_t b = in_kn > 64 ? 1 : 0;
  __CPROVER_assert(__g_nev == b + 8, "exactly the RFC 2104 sequence of hash operations");
  uint8_t k0;                                   /* byte j of the block-sized key K0 */
  if (in_kn > 64) {
    __CPROVER_assert(__g_ev[0].op == EV_DIGEST && __g_ev[0].ptr == in_key && __g_ev[0].n == in_kn, "long key is hashed first");
    k0 = j < 32 ? __g_ev[0].ret_sample : 0;
  } else {
    k0 = j < in_kn ? in_key[j] : 0;
  }
  __g_ev_t *e = &__g_ev[b];
  __CPROVER_assert(e[0].op == EV_CTOR, "inner hasher constructed");
  __CPROVER_assert(e[1].op == EV_UPDATE && e[1].self == e[0].self && e[1].n == 64 && e[1].sampled && e[1].sample == (uint8_t)(k0 ^ 0x36), "inner: K0 xor ipad");
  __CPROVER_assert(e[2].op == EV_UPDATE && e[2].self == e[0].self && e[2].n == in_dn && e[2].ptr == in_data, "inner: then the data");
  __CPROVER_assert(e[3].op == EV_FINAL && e[3].self == e[0].self, "inner finalised");
  __CPROVER_assert(e[4].op == EV_CTOR, "outer hasher constructed afresh");
  __CPROVER_assert(e[5].op == EV_UPDATE && e[5].self == e[4].self && e[5].n == 64 && e[5].sampled && e[5].sample == (uint8_t)(k0 ^ 0x5c), "outer: K0 xor opad");
  __CPROVER_assert(e[6].op == EV_UPDATE && e[6].self == e[4].self && e[6].n == 32 && (j >= 32 || (e[6].sampled && e[6].sample == e[3].ret_sample)), "outer: then the inner digest");
  __CPROVER_assert(e[7].op == EV_FINAL && e[7].self == e[4].self && e[7].ret_sample == r._[j & 31], "result is the outer digest");
  CANARY_POINT();
}

void h_verify(void)
{
  uint64_t in_kn, in_dn, in_mn;
  __CPROVER_assume(in_kn <= 0x0000FFFFFFFFFFFFul && in_dn <= 0x0000FFFFFFFFFFFFul && in_mn <= 0x0000FFFFFFFFFFFFul);
  uint8_t *in_key = malloc(in_kn + 1), *in_data = malloc(in_dn + 1), *in_mac = malloc(in_mn + 1);
  __CPROVER_assume(in_key && in_data && in_mac);
  _Bool ok = crypto__HmacSha256__verify((span_u8){in_key, in_kn}, (span_u8){in_data, in_dn}, (span_u8){in_mac, in_mn});
  _Bool eq = (in_mn == 32);
  for (int i = 0; i < 32; i++) if (eq && in_mac[i] != __g_mac._[i]) eq = 0;
  __CPROVER_assert(ok == eq, "verify accepts exactly the 32-byte tag equal to compute(key, data)");
  CANARY_POINT();
}
