from vdriver import Group, CHECKS
META = {'level': 'other'}
def groups(tier):
    return [Group('validate_public', 'keyx', 'C12/dh.c', entry='h_validate', enforce='network__KeyExchange__validate_public',
                  clause='validate_public(c) <=> 1 < c < p for every 32-bit candidate'),
            Group('modexp.contract', 'keyx', 'C12/dh.c', entry='h_modexp', enforce='network__KeyExchange__modexp', loop_contracts=True,
                  checks=CHECKS + ['--unsigned-overflow-check'], timeout=600, backend=['cadical', 'sat'],
                  clause='modexp terminates, never overflows 64 bits, never divides by zero and returns a residue < modulus, for every '
                         'base, exponent and modulus > 0 (loop invariant + variant)'),
            Group('compute_public', 'keyx', 'C12/dh.c', entry='h_compute_public', replace=['network__KeyExchange__modexp'],
                  defines=['CALLEE_VIEW'], clause='public key = modexp(g, private, p)'),
            Group('shared_secret', 'keyx', 'C12/dh.c', entry='h_shared', replace=['network__KeyExchange__modexp', 'crypto__Sha256__digest'],
                  defines=['CALLEE_VIEW'], unwind=5, clause='shared secret = SHA-256(big-endian modexp(remote mod p, private, p))'),
            Group('session_key.register', 'keymgr', 'C12/keymgr_reg.c', entry='h_register', replace=['crypto__HmacSha256__compute', 'peer_id_to_string'],
                  unwind=34, kind='unbounded', backend=['sat', 'cadical'],
                  clause='register_session_with_material: from any prior state the peer\'s session key becomes HMAC(shared secret, material) (single-key view of contexts_)')]
