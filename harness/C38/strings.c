/* C38 (E2, real JsonParser::parse_string / parse_unicode_escape / append_utf8 with the string model): for EVERY input of at most N
   bytes that starts a JSON string, whenever RFC 8259 decoding (an independent decoder below) gives a value, the parser succeeds
   with exactly that UTF-8 value and stops right after the closing quote; nothing but runtime_error escapes.  Inputs whose only
   problem is an unpaired surrogate escape are left unconstrained (RFC 8259 section 8.2 calls their handling unpredictable). */
#include "json_string.c"
#include "common.h"
#ifndef N
#define N 8
#endif
#if defined(PAIR) || defined(SINGLE) || defined(MIXED)
#define STEPS 3      /* the fixed shapes hold at most two escapes and the closing quote */
#else
#define STEPS N
#endif
static int hexv(char c) { if (c >= '0' && c <= '9') return c - '0'; if (c >= 'a' && c <= 'f') return 10 + c - 'a'; if (c >= 'A' && c <= 'F') return 10 + c - 'A'; return -1; }
/* 4 hex digits at in[i..i+3] -> code unit, or -1 */
static long unit_at(const char *in, uint64_t n, uint64_t i)
{
  if (i + 4 > n) return -1;
  long v = 0;
  for (int k = 0; k < 4; ++k) { int h = hexv(in[i + k]); if (h < 0) return -1; v = v * 16 + h; }
  return v;
}
static uint64_t put_utf8(unsigned long cp, uint8_t *out, uint64_t o)
{
  if (cp < 0x80) { out[o++] = (uint8_t)cp; }
  else if (cp < 0x800) { out[o++] = (uint8_t)(0xC0 | (cp >> 6)); out[o++] = (uint8_t)(0x80 | (cp & 0x3F)); }
  else if (cp < 0x10000) { out[o++] = (uint8_t)(0xE0 | (cp >> 12)); out[o++] = (uint8_t)(0x80 | ((cp >> 6) & 0x3F)); out[o++] = (uint8_t)(0x80 | (cp & 0x3F)); }
  else { out[o++] = (uint8_t)(0xF0 | (cp >> 18)); out[o++] = (uint8_t)(0x80 | ((cp >> 12) & 0x3F)); out[o++] = (uint8_t)(0x80 | ((cp >> 6) & 0x3F)); out[o++] = (uint8_t)(0x80 | (cp & 0x3F)); }
  return o;
}
/* RFC 8259 section 7/8 decoding of the string that starts at in[0]: 0 = value in out[0..*outn), *end = index after the closing quote;
   1 = not a well-formed string; 2 = well-formed but with an unpaired surrogate escape (no defined value) */
static int spec_decode(const char *in, uint64_t n, uint8_t *out, uint64_t *outn, uint64_t *end)
{
  uint64_t i = 1, o = 0; int lone = 0;
  if (n < 1 || in[0] != '"') return 1;
  for (int step = 0; step <= STEPS; ++step) {
    if (i >= n) return 1;
    char c = in[i++];
    if (c == '"') { *outn = o; *end = i; return lone ? 2 : 0; }
    if (c != '\\') { out[o++] = (uint8_t)c; continue; }
    if (i >= n) return 1;
    char e = in[i++];
    if (e == '"' || e == '\\' || e == '/') out[o++] = (uint8_t)e;
    else if (e == 'b') out[o++] = 8; else if (e == 'f') out[o++] = 12; else if (e == 'n') out[o++] = 10;
    else if (e == 'r') out[o++] = 13; else if (e == 't') out[o++] = 9;
    else if (e == 'u') {
      long u = unit_at(in, n, i); if (u < 0) return 1; i += 4;
      if (u >= 0xD800 && u <= 0xDBFF) {
        long lo = (i + 2 <= n && in[i] == '\\' && in[i + 1] == 'u') ? unit_at(in, n, i + 2) : -1;
        if (lo >= 0xDC00 && lo <= 0xDFFF) { i += 6; o = put_utf8(0x10000ul + (((unsigned long)u - 0xD800) << 10) + ((unsigned long)lo - 0xDC00), out, o); }
        else { lone = 1; o = put_utf8((unsigned long)u, out, o); }
      } else if (u >= 0xDC00 && u <= 0xDFFF) { lone = 1; o = put_utf8((unsigned long)u, out, o); }
      else o = put_utf8((unsigned long)u, out, o);
    } else return 1;
  }
  return 1;
}
void h_string(void)
{
  char in_text[N + 1]; uint64_t in_len; __CPROVER_assume(in_len <= N);
#ifdef MIXED    /* the shape "c\e": one arbitrary ordinary byte, then a two-character escape with an arbitrary escape letter */
  __CPROVER_assume(in_len == 5);
  in_text[0] = '"'; in_text[2] = '\\'; in_text[4] = '"';
  __CPROVER_assume(in_text[1] != '"' && in_text[1] != '\\' && in_text[3] != 'u');   /* \u escapes: the SINGLE / PAIR shapes */
#endif
#ifdef SINGLE   /* the shape "\uHHHH" */
  __CPROVER_assume(in_len == 8);
  in_text[0] = '"'; in_text[1] = '\\'; in_text[2] = 'u'; in_text[7] = '"';
  for (int k = 0; k < 4; ++k) __CPROVER_assume(hexv(in_text[3 + k]) >= 0);
#endif
#ifdef PAIR   /* the shape "\uHHHH\uHHHH" with arbitrary hex digits (all surrogate / non-surrogate combinations) */
  __CPROVER_assume(in_len == 14);
  in_text[0] = '"'; in_text[1] = '\\'; in_text[2] = 'u'; in_text[7] = '\\'; in_text[8] = 'u'; in_text[13] = '"';
  for (int k = 0; k < 4; ++k) { __CPROVER_assume(hexv(in_text[3 + k]) >= 0); __CPROVER_assume(hexv(in_text[9 + k]) >= 0); }
#ifdef PAIR_SURROGATES   /* case split: a high surrogate D800..DBFF followed by a low surrogate DC00..DFFF (2^20 pairs, both letter cases) */
  __CPROVER_assume(hexv(in_text[3]) == 13 && hexv(in_text[4]) >= 8 && hexv(in_text[4]) <= 11 && hexv(in_text[9]) == 13 && hexv(in_text[10]) >= 12);
#else                    /* the complementary case */
  __CPROVER_assume(!(hexv(in_text[3]) == 13 && hexv(in_text[4]) >= 8 && hexv(in_text[4]) <= 11 && hexv(in_text[9]) == 13 && hexv(in_text[10]) >= 12));
#endif
#endif
  JsonParser p; p.input_.p = in_text; p.input_.n = in_len; p.pos_ = 0;
  uint8_t want[4 * N + 4]; uint64_t want_n = 0, end = 0;
  int verdict = spec_decode(in_text, in_len, want, &want_n, &end);
  __exc = 0;
  str got = JsonParser__parse_string(&p);
  __CPROVER_assert(__exc == 0 || __exc == EXC_runtime_error, "only runtime_error escapes string parsing");
  if (verdict == 0) {
    __CPROVER_assert(__exc == 0, "a well-formed JSON string is accepted");
    __CPROVER_assert(got.n == want_n, "the decoded value has the length RFC 8259 decoding gives (a surrogate pair is ONE code point, 4 UTF-8 bytes)");
    uint64_t g; __CPROVER_assume(g < want_n);
    if (__exc == 0 && got.n == want_n) __CPROVER_assert((uint8_t)got.p[g] == want[g], "the decoded value equals the UTF-8 value of the JSON string (escapes, including surrogate pairs, decoded per RFC 8259)");
    __CPROVER_assert(p.pos_ == end, "parsing stops right after the closing quote");
  }
  CANARY_POINT();
}
