// native replay for C17 (refusal clause): the REAL encode_manifest on manifests with one field beyond what the format represents.
// Each must be refused with an exception; silently producing a URI (that decodes to something else) is the violation.
#include "ephemeralnet/protocol/Manifest.hpp"
#include <cstdio>
using namespace ephemeralnet;
static protocol::Manifest base() {
    protocol::Manifest m{}; m.chunk_id[0] = 0x17; m.threshold = 1; m.total_shares = 1;
    protocol::KeyShard s{}; s.index = 1; m.shards.push_back(s);
    m.expires_at = std::chrono::system_clock::time_point{std::chrono::seconds{2000000000}};
    return m;
}
template <class F> static int probe(const char* what, F mutate) {
    auto m = base(); mutate(m);
    try {
        const auto uri = protocol::encode_manifest(m);
        const auto back = protocol::decode_manifest(uri);
        std::printf("REPRODUCED: a manifest with %s was encoded without error (it decodes to %zu shards, %zu metadata entries, %zu hints, %zu fallbacks)\n",
                    what, back.shards.size(), back.metadata.size(), back.discovery_hints.size(), back.fallback_hints.size());
        return 1;
    } catch (const std::length_error&) { return 0; }
    catch (const std::exception& e) { std::printf("(%s: refused with %s)\n", what, e.what()); return 0; }
}
int main() {
    int bad = 0;
    bad += probe("300 key shards", [](protocol::Manifest& m) { m.shards.resize(300); for (std::size_t i = 0; i < m.shards.size(); ++i) m.shards[i].index = static_cast<std::uint8_t>(i + 1); m.threshold = 2; });
    bad += probe("256 key shards", [](protocol::Manifest& m) { m.shards.resize(256); });
    bad += probe("256 metadata entries", [](protocol::Manifest& m) { for (int i = 0; i < 256; ++i) m.metadata["k" + std::to_string(i)] = "v"; });
    bad += probe("a 256-byte metadata key", [](protocol::Manifest& m) { m.metadata[std::string(256, 'k')] = "v"; });
    bad += probe("a 65536-byte metadata value", [](protocol::Manifest& m) { m.metadata["k"] = std::string(65536, 'v'); });
    bad += probe("256 discovery hints", [](protocol::Manifest& m) { m.discovery_hints.resize(256); for (auto& h : m.discovery_hints) { h.scheme = "control"; h.transport = "control"; h.endpoint = "h:1"; } });
    bad += probe("a 256-byte hint transport", [](protocol::Manifest& m) { protocol::DiscoveryHint h{}; h.scheme = "s"; h.transport = std::string(256, 't'); h.endpoint = "h:1"; m.discovery_hints.push_back(h); });
    bad += probe("a 65536-byte hint endpoint", [](protocol::Manifest& m) { protocol::DiscoveryHint h{}; h.scheme = "s"; h.transport = "t"; h.endpoint = std::string(65536, 'e'); m.discovery_hints.push_back(h); });
    bad += probe("256 fallback hints", [](protocol::Manifest& m) { m.fallback_hints.resize(256); });
    bad += probe("a 65536-byte fallback uri", [](protocol::Manifest& m) { protocol::FallbackHint f{}; f.uri = std::string(65536, 'u'); m.fallback_hints.push_back(f); });
    bad += probe("a 65536-byte security advisory", [](protocol::Manifest& m) { m.security.advisory = std::string(65536, 'a'); });
    if (bad) return 1;
    std::printf("every unrepresentable manifest was refused\n");
    return 0;
}
