from vdriver import Group
META = {'level': 'other'}
def groups(tier):
    n = 3 if tier == 'quick' else 4
    return [Group('escape.roundtrip', 'logjson', 'C37/escape.c', entry='h_escape', unwind=6 * n + 4, unwind_by={'daemon__escape_control_characters#0': n + 1, 'cxx_oss_put_u64': 24, 'cxx_strlen': 8},
                  kind='bounded', backend=['sat', 'cadical'], timeout=2400, checks=['--bounds-check', '--pointer-check'], defines=['CXX_FIXED_STORAGE', f'CXX_VEC_CAP={6 * n + 8}', f'N={n}'],
                  replay='escape', bound=f'strings of at most {n} bytes, every byte value in every position',
                  clause='escape_json / escape_control_characters: the escaped text has no control byte and no raw quote and decodes, as a JSON string body, '
                         'to exactly the logged bytes')]
def replay(group, trace):
    """the REAL escape_json on the counterexample bytes; the escaped text is decoded with Python's json module"""
    import sys, os, json
    root = os.path.dirname(os.path.dirname(os.path.abspath(__file__)))
    sys.path.insert(0, os.path.join(root, 'replay'))
    import replaylib as R
    a = (trace or {}).get('assignments', {})
    if 'in_len' not in a:
        return None, 'counterexample has no input text'
    n = R.num(a['in_len'])
    text = bytes((R.num(a.get(f'in_text[{k}]', 0)) & 0xFF) for k in range(n))
    exe = R.build_full('C37.cpp', with_daemon=True, extra=['-fno-access-control'])
    rc, out = R.run(exe, [text.hex() or '""'], timeout=30)
    esc = bytes.fromhex(out.strip().splitlines()[-1]) if out.strip() else b''
    problem = None
    if any(b < 0x20 for b in esc):
        problem = 'the escaped text contains a raw control byte'
    else:
        try:
            back = json.loads('"' + esc.decode('latin-1') + '"').encode('latin-1', 'replace')     # bytes >= 0x80 pass through both ways
            if back != text:
                problem = f'the escaped text decodes to {back!r}'
        except Exception as e:
            problem = f'the escaped text is not a JSON string ({e})'
    return (problem is not None), f'input {text!r} -> escaped {esc!r}' + (': REPRODUCED ' + problem if problem else ': decodes back')
