/* C30: on the control-flow skeleton of the `fetch` branch of the CLI's main(): an output file is opened for writing only
   after the bytes in hand were hashed and compared EQUAL to the manifest's content hash; every control response
   (local daemon, remote control hint, fallback) resets that knowledge. */
#include "cli_fetch.c"
#include "common.h"
void h_fetch(void)
{
  g_hash_ok = 0; g_writes = 0; __skel_ret = 0;
  skel_main__focus();
  CANARY_POINT();
}
