// native replay for C27: a REAL Node + ControlServer with a configured control token; requests WITHOUT the token (or, with a
// third argument 'wrong', with a DIFFERENT token of the same length) must be
// refused with an authentication error and have no effect.  args: scenario port
//   scenario: stop | fetch_out | fetch_stream | store        exit 1 = effect happened / not refused (violation reproduced)
#include "ephemeralnet/core/Node.hpp"
#include "ephemeralnet/daemon/ControlPlane.hpp"
#include "ephemeralnet/protocol/Manifest.hpp"
#include <atomic>
#include <cstdio>
#include <cstdlib>
#include <filesystem>
#include <mutex>
#include <string>
#include <thread>
#include <arpa/inet.h>
#include <netinet/in.h>
#include <sys/socket.h>
#include <unistd.h>
using namespace ephemeralnet;
// a hand-written client: sends the request text verbatim (the bundled client normalises the command's case)
static std::string raw_request(std::uint16_t port, const std::string& text) {
    int fd = ::socket(AF_INET, SOCK_STREAM, 0);
    sockaddr_in addr{}; addr.sin_family = AF_INET; addr.sin_port = htons(port); addr.sin_addr.s_addr = htonl(INADDR_LOOPBACK);
    if (::connect(fd, reinterpret_cast<sockaddr*>(&addr), sizeof(addr)) != 0) { ::close(fd); return ""; }
    ::send(fd, text.data(), text.size(), 0);
    timeval tv{3, 0}; ::setsockopt(fd, SOL_SOCKET, SO_RCVTIMEO, &tv, sizeof(tv));
    std::string out; char buf[4096];
    for (;;) { const auto n = ::recv(fd, buf, sizeof(buf), 0); if (n <= 0) break; out.append(buf, static_cast<std::size_t>(n)); if (out.find("\n\n") != std::string::npos) break; }
    ::close(fd);
    return out;
}
int main(int argc, char** argv) {
    if (argc < 3) return 2;
    const std::string scenario = argv[1];
    const auto port = static_cast<std::uint16_t>(std::atoi(argv[2]));
    Config config{};
    config.control_host = "127.0.0.1";
    config.control_port = port;
    config.control_token = std::string("s3cret-token");
    config.identity_seed = 7u;
    PeerId id{}; id[0] = 0x42;
    Node node(id, config);
    std::mutex node_mutex;
    std::atomic<bool> stop_called{false};
    daemon::ControlServer server(node, node_mutex, [&]() { stop_called.store(true); });
    server.start("127.0.0.1", port);
    std::this_thread::sleep_for(std::chrono::milliseconds(200));

    // a chunk the node really holds, and its manifest
    ChunkId chunk{}; chunk[0] = 9;
    ChunkData data{'h', 'e', 'l', 'l', 'o'};
    std::string uri;
    {
        std::scoped_lock lock(node_mutex);
        const auto manifest = node.store_chunk(chunk, data, std::chrono::seconds(120), std::string("f.txt"));
        uri = protocol::encode_manifest(manifest);
        node.manifest_cache_.clear();   // forget it again: a refused FETCH must not re-register it
    }
    const bool wrong = argc > 3 && std::string(argv[3]) == "wrong";
    daemon::ControlClient client("127.0.0.1", port, wrong ? std::optional<std::string>("s3cret-tokem") : std::nullopt);   // NO token / a wrong one
    int rc = 0;
    auto refused = [&](const std::optional<daemon::ControlResponse>& r) {
        if (!r.has_value()) { std::printf("no response\n"); return false; }
        const auto code = r->fields.count("CODE") ? r->fields.at("CODE") : std::string("?");
        std::printf("response success=%d CODE=%s\n", r->success ? 1 : 0, code.c_str());
        return !r->success && code.find("UNAUTHENTICATED") != std::string::npos;
    };
    if (scenario == "stop") {
        const auto r = client.send("STOP");
        const bool ok = refused(r);
        if (stop_called.load() || !ok) { std::printf("REPRODUCED: STOP without the token %s (stop callback invoked: %d)\n", ok ? "was refused" : "was NOT refused", stop_called.load() ? 1 : 0); rc = 1; }
    } else if (scenario == "fetch_out") {
        const auto out = std::filesystem::temp_directory_path() / ("c27-replay-" + std::to_string(port) + ".bin");
        std::filesystem::remove(out);
        const auto r = client.send("FETCH", {{"MANIFEST", uri}, {"OUT", out.string()}});
        const bool ok = refused(r);
        const bool written = std::filesystem::exists(out);
        bool registered; { std::scoped_lock lock(node_mutex); registered = !node.manifest_cache_.empty(); }
        std::filesystem::remove(out);
        if (written || registered || !ok) { std::printf("REPRODUCED: FETCH OUT without the token: refused=%d file_written=%d manifest_registered=%d\n", ok ? 1 : 0, written ? 1 : 0, registered ? 1 : 0); rc = 1; }
    } else if (scenario == "fetch_stream") {
        const auto r = client.send("FETCH", {{"MANIFEST", uri}, {"STREAM", "client"}});
        const bool ok = refused(r);
        bool registered; { std::scoped_lock lock(node_mutex); registered = !node.manifest_cache_.empty(); }
        const bool leaked = r.has_value() && r->has_payload && !r->payload.empty();
        if (registered || leaked || !ok) { std::printf("REPRODUCED: FETCH STREAM without the token: refused=%d payload_returned=%d manifest_registered=%d\n", ok ? 1 : 0, leaked ? 1 : 0, registered ? 1 : 0); rc = 1; }
    } else if (scenario == "store") {
        std::size_t before; { std::scoped_lock lock(node_mutex); before = node.stored_chunks().size(); }
        const std::vector<std::uint8_t> payload{1, 2, 3, 4};
        const auto r = client.send("STORE", {{"TTL", "120"}}, payload);
        const bool ok = refused(r);
        std::size_t after; { std::scoped_lock lock(node_mutex); after = node.stored_chunks().size(); }
        if (after != before || !ok) { std::printf("REPRODUCED: STORE without the token: refused=%d chunks %zu -> %zu\n", ok ? 1 : 0, before, after); rc = 1; }
    } else if (scenario == "raw") {
        // the same four requests with the command spelled in lower / mixed case, written by hand, no TOKEN header
        const auto out = std::filesystem::temp_directory_path() / ("c27-raw-" + std::to_string(port) + ".bin");
        std::filesystem::remove(out);
        std::size_t before; { std::scoped_lock lock(node_mutex); before = node.stored_chunks().size(); }
        const std::string reqs[] = {
            "COMMAND:Store\nTTL:120\nPAYLOAD-LENGTH:4\n\nabcd",
            "COMMAND:fetch\nMANIFEST:" + uri + "\nOUT:" + out.string() + "\n\n",
            "COMMAND:Fetch\nMANIFEST:" + uri + "\nSTREAM:client\n\n",
            "COMMAND:stop\n\n"};
        for (const auto& rq : reqs) {
            const auto resp = raw_request(port, rq);
            const bool ok_status = resp.find("STATUS:OK") != std::string::npos;
            std::size_t after; { std::scoped_lock lock(node_mutex); after = node.stored_chunks().size(); }
            bool registered; { std::scoped_lock lock(node_mutex); registered = !node.manifest_cache_.empty(); }
            if (ok_status || after != before || std::filesystem::exists(out) || registered || stop_called.load()) {
                std::printf("REPRODUCED: hand-written request \"%s\" without the token: status_ok=%d stored=%d file_written=%d manifest_registered=%d stop_invoked=%d\n",
                            rq.substr(0, rq.find('\n')).c_str(), ok_status ? 1 : 0, after != before ? 1 : 0, std::filesystem::exists(out) ? 1 : 0, registered ? 1 : 0, stop_called.load() ? 1 : 0);
                rc = 1; break;
            }
        }
        std::filesystem::remove(out);
    } else {
        return 2;
    }
    if (rc == 0) std::printf("request without the token refused, no effect\n");
    server.stop();
    std::fflush(stdout);
    std::_Exit(rc);
}
