#!/usr/bin/env python3
"""Regenerates MANIFEST.json from checks/*.py (claimed properties) and tools/manifest_meta.json (texts, N/A reasons)."""
import json, os, glob
ROOT = os.path.dirname(os.path.dirname(os.path.abspath(__file__)))
meta = json.load(open(os.path.join(ROOT, 'tools', 'manifest_meta.json')))
props = [json.loads(l)['id'] for l in open(os.path.join(ROOT, 'properties.jsonl'))]
claimed = sorted(os.path.splitext(os.path.basename(p))[0] for p in glob.glob(os.path.join(ROOT, 'checks', 'C*.py')))
claimed = [c for c in claimed if c in meta['claimed']]
checks = []
for pid in claimed:
    m = meta['claimed'][pid]
    checks.append({
        'property_id': pid,
        'quick_cmd': f'./check {pid} --tier quick',
        'thorough_cmd': f'./check {pid} --tier thorough',
        'evidence_file': f'/verif/evidence/{pid}.json',
        'replay_cmd_template': 'cat {path}',
        'engine': 'cbmc-contracts',
        'level_claimed': {'category': m['category'], 'text': m['text'], 'design_ref': m.get('design_ref', 'DESIGN.md section 4')},
        'level_note': m['note'],
        'technique': m.get('technique', 'contract-based deductive verification: CBMC 6.11 code contracts (goto-instrument --dfcc) on the C lowering '
                                        'of the real functions generated from clang\'s AST on every run'),
    })
na = [{'property_id': p, 'reason': meta['not_applicable'].get(p, 'not yet covered by a discharged obligation group in this round (see DESIGN.md section 5)')}
      for p in props if p not in claimed]
man = {
    'version': 1,
    'setup_cmd': 'true',
    'hooks': {'guard': 'EPHEMERALNET_VERIF',
              'enable': 'no hooks are needed: checks lower /repo sources from clang\'s AST and native replays #include the real .cpp files',
              'baseline_off_cmd': 'cmake --build /repo/_build -j16 -- -k 0; ctest --test-dir /repo/_build -j8 --timeout 900',
              'source_commits': [], 'add_only': True},
    'engines': [{'name': 'cbmc-contracts', 'path': '/verif/check', 'serves_properties': claimed,
                 'kind_free_text': 'cxx2c (clang AST -> C lowering) + CBMC 6.11 dfcc function/loop contracts + native replay'}],
    'checks': checks,
    'notes': 'exit 0 held / 1 violation (VIOLATION line) / 2 undecided (tool limit, timeout, lowering failure; never a violation). '
             'Fixed defects and known findings: known_findings.txt.',
    'not_applicable': na,
}
json.dump(man, open(os.path.join(ROOT, 'MANIFEST.json'), 'w'), indent=1)
print('claimed', claimed)
