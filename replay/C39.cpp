// native replay for C39: two REAL KeyManagers (the two ends of one session) register the same shared secret and handshake material,
// then each rotates on its own tick.  exit 1 = after the rotation the two ends hold different keys (and nothing tears the
// session down: Node::rotate_session_keys just installs the new key).
#include "ephemeralnet/network/KeyManager.hpp"
#include <cstdio>
using namespace ephemeralnet;
int main() {
    network::KeyManager a(std::chrono::seconds(5)), b(std::chrono::seconds(5));
    PeerId pa{}, pb{}; pa[0] = 1; pb[0] = 2;
    crypto::Key secret{}; for (std::size_t i = 0; i < secret.bytes.size(); ++i) secret.bytes[i] = static_cast<std::uint8_t>(i * 7 + 1);
    const std::array<std::uint8_t, 8> material{1, 2, 3, 4, 5, 6, 7, 8};
    const auto t0 = std::chrono::steady_clock::now();
    a.register_session_with_material(pb, secret, material, t0);
    b.register_session_with_material(pa, secret, material, t0 + std::chrono::milliseconds(3));   // the other process registers a moment later
    if (a.current_key(pb) != b.current_key(pa)) { std::printf("session keys already differ after the handshake\n"); return 2; }
    const auto ra = a.rotate_if_needed(pb, t0 + std::chrono::seconds(6));
    const auto rb = b.rotate_if_needed(pa, t0 + std::chrono::seconds(6) + std::chrono::milliseconds(250));   // each end ticks on its own schedule
    if (!ra.has_value() || !rb.has_value()) { std::printf("no rotation happened\n"); return 2; }
    if (*ra != *rb) { std::printf("REPRODUCED: after one rotation the two ends of the session hold different keys (derive_key mixes in each end's local timestamp)\n"); return 1; }
    std::printf("both ends rotated to the same key\n");
    return 0;
}
