/* C10: the share arithmetic is GF(2^8): tables are powers/logs of the generator 2, gf_mul is the field product,
   gf_div its inverse and division by zero raises invalid_argument */
#ifdef SHAMIR_UNIT_B
#include "shamir_b.c"   /* lowered from contracts/shamir_b.spec: reserve() not modelled (bounded groups) */
#else
#include "shamir.c"
#endif
#include "gf256.h"
#include "common.h"

void h_tables(void)
{
  arr_u8_512 e = crypto__build_exp_table();
  arr_u8_256 l = crypto__build_log_table(&e);
  __CPROVER_assert(e._[0] == 1, "exp[0] = 1");
  for (int i = 0; i < 254; i++) __CPROVER_assert(e._[i + 1] == spec_xtime(e._[i]), "exp[i+1] = 2 * exp[i] in GF(2^8)");
  __CPROVER_assert(spec_xtime(e._[254]) == 1, "generator has order 255");
  for (int i = 255; i < 512; i++) __CPROVER_assert(e._[i] == e._[i - 255], "exp table wraps with period 255");
  for (int i = 0; i < 255; i++) __CPROVER_assert(l._[e._[i]] == i, "log is the inverse of exp");
  for (int v = 1; v < 256; v++) __CPROVER_assert(e._[l._[v]] == v, "every non-zero element is a power of the generator");
  CANARY_POINT();
}

void h_mul(void)
{
  arr_u8_512 e = crypto__build_exp_table();
  arr_u8_256 l = crypto__build_log_table(&e);
  uint8_t in_a, in_b;
  uint8_t r = crypto__gf_mul(in_a, in_b, &e, &l);
  __CPROVER_assert(r == spec_gf_mul(in_a, in_b), "gf_mul == carry-less product mod 0x11D");
  __CPROVER_assert(crypto__gf_add(in_a, in_b) == (uint8_t)(in_a ^ in_b), "gf_add == xor");
  __CPROVER_assert((r == 0) == (in_a == 0 || in_b == 0), "gf_mul has no zero divisors (the summary contract of gf_mul used by combine.rejects)");
  CANARY_POINT();
}

void h_div(void)
{
  arr_u8_512 e = crypto__build_exp_table();
  arr_u8_256 l = crypto__build_log_table(&e);
  uint8_t in_a, in_b;
  __exc = 0;
  uint8_t q = crypto__gf_div(in_a, in_b, &e, &l);
  if (in_b == 0) __CPROVER_assert(__exc == EXC_invalid_argument, "division by zero raises invalid_argument");
  else {
    __CPROVER_assert(__exc == 0, "no exception for a non-zero divisor");
    __CPROVER_assert(spec_gf_mul(q, in_b) == in_a, "gf_div is the inverse of multiplication");
    __CPROVER_assert((q == 0) == (in_a == 0), "a quotient is zero only for a zero dividend (the summary contract of gf_div used by combine.rejects)");
  }
  CANARY_POINT();
}

/* field axioms of the specification product itself (so that "genuine field" does not rest on the tables) */
void h_field(void)
{
  uint8_t a, b;
  __CPROVER_assert(spec_gf_mul(a, b) == spec_gf_mul(b, a), "commutative");
  __CPROVER_assert(spec_gf_mul(a, 1) == a, "identity");
  __CPROVER_assert((a == 0 || b == 0) == (spec_gf_mul(a, b) == 0), "no zero divisors");
  CANARY_POINT();
}

/* split terminates and yields n shares with indices 1..n (threshold 1 keeps the polynomial part trivial; the share-index
   loop does not depend on the threshold) */
void h_split_indices(void)
{
  arr_u8_32 in_secret; uint8_t in_n;
  __CPROVER_assume(in_n >= 1);
#ifdef N_MIN
  __CPROVER_assume(in_n >= N_MIN);
#endif
#ifdef N_MAX
  __CPROVER_assume(in_n <= N_MAX);
#endif
  __exc = 0;
  vec_crypto__ShamirShare r = crypto__Shamir__split(&in_secret, 1, in_n);
  __CPROVER_assert(__exc == 0, "split does not throw for 1 <= t <= n");
  __CPROVER_assert(r.n == in_n, "split yields n shares");
  uint64_t g; __CPROVER_assume(g < r.n);
  __CPROVER_assert(r.p[g].index == g + 1, "share g has the non-zero, distinct index g+1");
  __CPROVER_assert(r.p[g].value._[0] == in_secret._[0], "with threshold 1 every share equals the secret");
  CANARY_POINT();
}

/* split under its function contract + loop contracts: for EVERY 32-byte secret, threshold and share count (0..255 each) */
void h_split_contract(void)
{
  arr_u8_32 in_secret; uint8_t in_t, in_n;
  __exc = 0;
  vec_crypto__ShamirShare r = crypto__Shamir__split(&in_secret, in_t, in_n);
  CANARY_POINT();
}

/* combine on t <= T_MAX shares with symbolic indices and values: fewer than t shares or a repeated index among the first t
   => invalid_argument, nothing else escapes */
#ifndef T_MAX
#define T_MAX 3
#endif
void h_combine_rejects(void)
{
  vec_crypto__ShamirShare in_shares; uint8_t in_t; uint64_t in_n;
  __CPROVER_assume(in_n <= T_MAX && in_t >= 1 && in_t <= T_MAX);
#ifdef T_FIX
  in_t = T_FIX;   /* case split over the threshold: the copy of the first t shares then has a constant length */
#endif
  in_shares.p = malloc(sizeof(crypto__ShamirShare) * (T_MAX + 1)); in_shares.n = in_n; in_shares.cap = T_MAX + 1;
  __CPROVER_assume(in_shares.p != 0);
  /* the 32 byte positions are interpolated independently by the same code: positions 1..31 are fixed to zero, position 0 is
     arbitrary (this keeps both behaviours of the code -- the skipped zero byte and the division -- and a tractable formula) */
  for (int i = 0; i < T_MAX; ++i) for (int b = 1; b < 32; ++b) in_shares.p[i].value._[b] = 0;
  uint8_t in_i0, in_i1, in_i2, in_i3, in_v0, in_v1, in_v2, in_v3;     /* scalars, so that a counterexample names them */
  in_shares.p[0].index = in_i0; in_shares.p[0].value._[0] = in_v0;
#if T_MAX > 1
  in_shares.p[1].index = in_i1; in_shares.p[1].value._[0] = in_v1;
#endif
#if T_MAX > 2
  in_shares.p[2].index = in_i2; in_shares.p[2].value._[0] = in_v2;
#endif
#if T_MAX > 3
  in_shares.p[3].index = in_i3; in_shares.p[3].value._[0] = in_v3;
#endif
  _Bool dup = 0;
  for (int i = 0; i < T_MAX; ++i) for (int j = 0; j < i; ++j)
    if (i < in_t && i < (int)in_n && in_shares.p[i].index == in_shares.p[j].index) dup = 1;
  __exc = 0;
  arr_u8_32 r = crypto__Shamir__combine(&in_shares, in_t);
  __CPROVER_assert(__exc == 0 || __exc == EXC_invalid_argument, "only invalid_argument escapes combine");
  if (in_n < in_t) __CPROVER_assert(__exc == EXC_invalid_argument, "fewer than t shares: invalid_argument");
  else if (dup) __CPROVER_assert(__exc == EXC_invalid_argument, "a repeated index among the t shares used: invalid_argument, never a 'reconstructed' secret");
  else __CPROVER_assert(__exc == 0, "t shares with distinct indices are accepted");
  CANARY_POINT();
}
/* reconstruction for threshold 2: shares of the degree-1 polynomial s + c*x at two distinct non-zero indices, in either order,
   combine to s (per byte; the field operations are the ones proved against the carry-less specification above) */
void h_combine_reconstructs_t2(void)
{
  arr_u8_32 in_secret, in_coeff; uint8_t in_x1, in_x2;
  __CPROVER_assume(in_x1 != 0 && in_x2 != 0 && in_x1 != in_x2);
  vec_crypto__ShamirShare sh; sh.p = malloc(sizeof(crypto__ShamirShare) * 3); sh.n = 2; sh.cap = 3;
  __CPROVER_assume(sh.p != 0);
  sh.p[0].index = in_x1; sh.p[1].index = in_x2;
  for (int b = 1; b < 32; ++b) { in_secret._[b] = 0; in_coeff._[b] = 0; }     /* byte positions are independent: position 0 arbitrary */
  for (int b = 0; b < 32; ++b) {
    sh.p[0].value._[b] = (uint8_t)(in_secret._[b] ^ spec_gf_mul(in_coeff._[b], in_x1));
    sh.p[1].value._[b] = (uint8_t)(in_secret._[b] ^ spec_gf_mul(in_coeff._[b], in_x2));
  }
  __exc = 0;
  arr_u8_32 r = crypto__Shamir__combine(&sh, 2);
  __CPROVER_assert(__exc == 0, "two shares with distinct non-zero indices are accepted");
  uint64_t g = 0;
  __CPROVER_assert(r._[g] == in_secret._[g], "any two shares of a threshold-2 sharing reconstruct the secret");
  CANARY_POINT();
}

/* evaluate_polynomial (what split computes per share and byte) against the polynomial over the carry-less specification product:
   p(x) = c0 + c1 x + c2 x^2 (+ c3 x^3), for every x, constant term and coefficients (degree <= DEG) */
#ifndef DEG
#define DEG 2
#endif
void h_evalpoly(void)
{
  arr_u8_512 e = crypto__build_exp_table();
  arr_u8_256 l = crypto__build_log_table(&e);
  uint8_t in_x, in_c0; static uint8_t in_c[DEG + 1]; uint64_t in_deg; __CPROVER_assume(in_deg <= DEG);
  { uint8_t a[DEG + 1]; for (int k = 0; k <= DEG; ++k) in_c[k] = a[k]; }
  vec_u8 co; co.p = in_c; co.n = in_deg; co.cap = DEG + 1;
  uint8_t got = crypto__evaluate_polynomial(in_x, in_c0, &co, &e, &l);
  uint8_t want = in_c0, pw = 1;
  for (uint64_t k = 0; k < DEG; ++k) if (k < in_deg) { pw = spec_gf_mul(pw, in_x); want ^= spec_gf_mul(in_c[k], pw); }
  __CPROVER_assert(got == want, "evaluate_polynomial is the polynomial c0 + c1 x + c2 x^2 + ... over GF(2^8) (the shares split hands out are points of that polynomial)");
  CANARY_POINT();
}
