/* C24 (in-flight accounting): on the tagged control-flow skeleton of schedule_assigned_fetch / clear_pending_fetch /
   dispatch_pending_fetch / process_pending_fetches, starting from any state in which the pending fetch's in_flight flag agrees
   with its share of the peer's in-flight count: the flag is set only after note_dispatch_start and cleared only after
   note_dispatch_end, so the per-peer count equals the number of in-flight fetches and returns to zero with them. */
#include "fetch_slots.c"
#include "common.h"
static void start(void) { g_flag = nondet_bool(); g_counted = g_flag; __skel_exc = 0; __skel_ret = 0; }
static void end_consistent(void) { __CPROVER_assert(__skel_exc || g_flag == g_counted, "flag and count agree again when the function returns"); }
void h_schedule(void) { start(); skel_Node__schedule_assigned_fetch(); end_consistent(); CANARY_POINT(); }
void h_clear(void) { start(); skel_Node__clear_pending_fetch(); CANARY_POINT(); }
void h_dispatch(void) { start(); __CPROVER_assume(!g_flag); skel_Node__dispatch_pending_fetch(); end_consistent(); CANARY_POINT(); }
