// native replay for C25: the REAL RelayServer (event loop in a thread) and three plain TCP clients.
//   T: REGISTER <T>            -> OK
//   C1: CONNECT <C1> <T>       -> OK           (T is now claimed by C1, still waiting for C1's identity)
//   T: REGISTER <T>  (again)
//   C2: CONNECT <C2> <T>       -> must NOT be OK: a registered peer is claimed by at most one connector at a time
// exit 1 = C2 was paired with the already claimed peer.
#include "src/relay/EventLoop.cpp"
#include "src/relay/RelayServer.cpp"
#include <arpa/inet.h>
#include <csignal>
#include <cstdio>
#include <string>
#include <sys/socket.h>
#include <thread>
#include <unistd.h>
using namespace ephemeralnet;
static int dial(std::uint16_t port) {
    int fd = ::socket(AF_INET, SOCK_STREAM, 0);
    sockaddr_in a{}; a.sin_family = AF_INET; a.sin_port = htons(port); inet_pton(AF_INET, "127.0.0.1", &a.sin_addr);
    if (::connect(fd, reinterpret_cast<sockaddr*>(&a), sizeof a) != 0) { ::close(fd); return -1; }
    timeval tv{2, 0}; setsockopt(fd, SOL_SOCKET, SO_RCVTIMEO, &tv, sizeof tv);
    return fd;
}
static std::string ask(int fd, const std::string& line) {
    if (!line.empty()) (void)!::write(fd, line.data(), line.size());
    char buf[256]; const auto n = ::read(fd, buf, sizeof buf - 1);
    return n > 0 ? std::string(buf, static_cast<std::size_t>(n)) : std::string("(no answer)");
}
static std::string hex_id(char c) { return std::string(64, c); }
int main(int argc, char** argv) {
    const std::string scn = argc > 1 ? argv[1] : "reregister";
    std::signal(SIGPIPE, SIG_IGN);
    for (std::uint16_t port = 49910; port < 49930; ++port) {
        relay::EventLoop loop; relay::RelayServerConfig cfg; cfg.listen_host = "127.0.0.1"; cfg.listen_port = port;
        relay::RelayServer server(loop, cfg);
        if (!server.start()) continue;
        std::thread th([&] { loop.run(); });
        auto finish = [&](int rc) { server.stop(); loop.stop(); if (th.joinable()) th.join(); return rc; };
        const int t = dial(port), c1 = dial(port), c2 = dial(port);
        if (t < 0 || c1 < 0 || c2 < 0) { std::printf("setup: cannot connect\n"); return finish(2); }
        const auto r1 = ask(t, "REGISTER " + hex_id('a') + "\n");
        const auto r2 = ask(c1, "CONNECT " + hex_id('b') + " " + hex_id('a') + "\n");
        if (r1.rfind("OK", 0) != 0 || r2.rfind("OK", 0) != 0) { std::printf("setup: REGISTER -> %s CONNECT -> %s\n", r1.c_str(), r2.c_str()); return finish(2); }
        if (scn == "disconnect") {
            // C1 completes the bridge (32 identity bytes), then goes away: T must be disconnected (EOF), not left hanging
            const std::string ident(32, 'I');
            (void)!::write(c1, ident.data(), ident.size());
            const auto begin = ask(t, "");                         // "BEGIN <c1>\n" + identity
            ::close(c1);
            char buf[64]; ssize_t n = -2;
            for (int i = 0; i < 3; ++i) { n = ::read(t, buf, sizeof buf); if (n <= 0) break; }
            ::close(t); ::close(c2);
            if (begin.rfind("BEGIN", 0) != 0) { std::printf("setup: no BEGIN (%.20s)\n", begin.c_str()); return finish(2); }
            if (n != 0) { std::printf("REPRODUCED: the connector side of an established bridge disconnected but the other side was not disconnected (no EOF within the read timeout)\n"); return finish(1); }
            std::printf("the partner of a disconnecting bridge side was disconnected\n");
            return finish(0);
        }
        const auto r3 = ask(t, "REGISTER " + hex_id('a') + "\n");
        const auto r4 = ask(c2, "CONNECT " + hex_id('c') + " " + hex_id('a') + "\n");
        ::close(t); ::close(c1); ::close(c2);
        if (r4.rfind("OK", 0) == 0) { std::printf("REPRODUCED: peer T, already claimed by connector C1, registered again (answer %.20s) and was claimed a second time by C2 (CONNECT answered OK): T's bytes now go to C2 while C1 is still paired with T\n", r3.substr(0, r3.find('\n')).c_str()); return finish(1); }
        std::printf("the claimed peer could not be claimed again (second REGISTER -> %.30s, second CONNECT -> %.30s)\n", r3.substr(0, r3.find('\n')).c_str(), r4.substr(0, r4.find('\n')).c_str());
        return finish(0);
    }
    std::printf("setup: no free port\n");
    return 2;
}
