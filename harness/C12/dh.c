/* C12 (decided clauses): public-key validation, modexp range/termination/no-overflow, shared secret = SHA-256 of the
   big-endian shared scalar computed from (remote mod p, private, p). */
#include "keyx.c"
#include "common.h"
void h_modexp(void)
{
  uint64_t in_base; uint32_t in_exp, in_mod;
  __CPROVER_assume(in_mod > 0); __g_me_calls = 0;
  uint32_t r = network__KeyExchange__modexp(in_base, in_exp, in_mod);
  CANARY_POINT();
}
void h_validate(void)
{
  uint32_t in_c;
  _Bool r = network__KeyExchange__validate_public(in_c);
  CANARY_POINT();
}
void h_compute_public(void)
{
  uint32_t in_priv;
  __g_me_calls = 0;
  uint32_t r = network__KeyExchange__compute_public(in_priv);
  __CPROVER_assert(__g_me_calls == 1 && __g_me_base == 5 && __g_me_exp == in_priv && __g_me_mod == 2147483647u, "public key = modexp(5, private, 2^31-1)");
  __CPROVER_assert(r == __g_me_ret && r < 2147483647u, "and is a residue mod p");
  CANARY_POINT();
}
void h_shared(void)
{
  uint32_t in_priv, in_remote;
  __g_me_calls = 0; __g_dg_calls = 0;
  crypto__Key k = network__KeyExchange__derive_shared_secret(in_priv, in_remote);
  __CPROVER_assert(__g_me_calls == 1 && __g_me_base == in_remote % 2147483647u && __g_me_exp == in_priv && __g_me_mod == 2147483647u,
                   "shared scalar = modexp(remote mod p, private, p)");
  __CPROVER_assert(__g_dg_calls == 1 && __g_dg_n == 4, "exactly four bytes are hashed");
  __CPROVER_assert(__g_dg_bytes[0] == (uint8_t)(__g_me_ret >> 24) && __g_dg_bytes[1] == (uint8_t)(__g_me_ret >> 16) &&
                   __g_dg_bytes[2] == (uint8_t)(__g_me_ret >> 8) && __g_dg_bytes[3] == (uint8_t)__g_me_ret, "the big-endian shared scalar");
  __CPROVER_assert(k.bytes._[0] == __g_dg_out._[0] && k.bytes._[17] == __g_dg_out._[17] && k.bytes._[31] == __g_dg_out._[31], "the key is that digest");
  CANARY_POINT();
}
