/* Independent reference for SHA-256 written from FIPS 180-4 (sections 4.1.2, 4.2.2, 5.1.1, 5.3.3, 6.2.2).
   Specification text: loop-free macros / fully unrolled by CBMC; shares nothing with /repo. */
#ifndef FIPS180_H
#define FIPS180_H
#include <stdint.h>
#define F_ROTR(x, n) ((uint32_t)(((x) >> (n)) | ((x) << (32 - (n)))))
#define F_CH(x, y, z) ((uint32_t)(((x) & (y)) ^ (~(x) & (z))))
#define F_MAJ(x, y, z) ((uint32_t)(((x) & (y)) ^ ((x) & (z)) ^ ((y) & (z))))
#define F_BSIG0(x) (F_ROTR(x, 2) ^ F_ROTR(x, 13) ^ F_ROTR(x, 22))
#define F_BSIG1(x) (F_ROTR(x, 6) ^ F_ROTR(x, 11) ^ F_ROTR(x, 25))
#define F_SSIG0(x) (F_ROTR(x, 7) ^ F_ROTR(x, 18) ^ ((uint32_t)(x) >> 3))
#define F_SSIG1(x) (F_ROTR(x, 17) ^ F_ROTR(x, 19) ^ ((uint32_t)(x) >> 10))

static const uint32_t FIPS_K[64] = {
  0x428a2f98, 0x71374491, 0xb5c0fbcf, 0xe9b5dba5, 0x3956c25b, 0x59f111f1, 0x923f82a4, 0xab1c5ed5,
  0xd807aa98, 0x12835b01, 0x243185be, 0x550c7dc3, 0x72be5d74, 0x80deb1fe, 0x9bdc06a7, 0xc19bf174,
  0xe49b69c1, 0xefbe4786, 0x0fc19dc6, 0x240ca1cc, 0x2de92c6f, 0x4a7484aa, 0x5cb0a9dc, 0x76f988da,
  0x983e5152, 0xa831c66d, 0xb00327c8, 0xbf597fc7, 0xc6e00bf3, 0xd5a79147, 0x06ca6351, 0x14292967,
  0x27b70a85, 0x2e1b2138, 0x4d2c6dfc, 0x53380d13, 0x650a7354, 0x766a0abb, 0x81c2c92e, 0x92722c85,
  0xa2bfe8a1, 0xa81a664b, 0xc24b8b70, 0xc76c51a3, 0xd192e819, 0xd6990624, 0xf40e3585, 0x106aa070,
  0x19a4c116, 0x1e376c08, 0x2748774c, 0x34b0bcb5, 0x391c0cb3, 0x4ed8aa4a, 0x5b9cca4f, 0x682e6ff3,
  0x748f82ee, 0x78a5636f, 0x84c87814, 0x8cc70208, 0x90befffa, 0xa4506ceb, 0xbef9a3f7, 0xc67178f2};
static const uint32_t FIPS_H0[8] = {0x6a09e667, 0xbb67ae85, 0x3c6ef372, 0xa54ff53a,
                                    0x510e527f, 0x9b05688c, 0x1f83d9ab, 0x5be0cd19};

/* 6.2.2: one block */
static inline void fips_compress(uint32_t H[8], const uint8_t M[64])
{
  uint32_t W[64];
  for (int t = 0; t < 16; t++)
    W[t] = ((uint32_t)M[4 * t] << 24) | ((uint32_t)M[4 * t + 1] << 16) | ((uint32_t)M[4 * t + 2] << 8) | (uint32_t)M[4 * t + 3];
  for (int t = 16; t < 64; t++)
    W[t] = F_SSIG1(W[t - 2]) + W[t - 7] + F_SSIG0(W[t - 15]) + W[t - 16];
  uint32_t a = H[0], b = H[1], c = H[2], d = H[3], e = H[4], f = H[5], g = H[6], h = H[7];
  for (int t = 0; t < 64; t++) {
    uint32_t T1 = h + F_BSIG1(e) + F_CH(e, f, g) + FIPS_K[t] + W[t];
    uint32_t T2 = F_BSIG0(a) + F_MAJ(a, b, c);
    h = g; g = f; f = e; e = d + T1; d = c; c = b; b = a; a = T1 + T2;
  }
  H[0] += a; H[1] += b; H[2] += c; H[3] += d; H[4] += e; H[5] += f; H[6] += g; H[7] += h;
}

/* 5.1.1 + 6.2: whole message of n bytes (n < 2^61), digest big-endian */
static inline void fips_sha256(const uint8_t *msg, uint64_t n, uint8_t out[32])
{
  uint32_t H[8];
  for (int i = 0; i < 8; i++) H[i] = FIPS_H0[i];
  uint64_t full = n / 64;
  for (uint64_t b = 0; b < full; b++) fips_compress(H, msg + 64 * b);
  uint8_t last[128];
  uint64_t rem = n - 64 * full;
  for (int i = 0; i < 128; i++) last[i] = 0;
  for (uint64_t i = 0; i < rem; i++) last[i] = msg[64 * full + i];
  last[rem] = 0x80;
  int blocks = (rem < 56) ? 1 : 2;
  uint64_t bits = n * 8;
  for (int i = 0; i < 8; i++) last[64 * blocks - 1 - i] = (uint8_t)(bits >> (8 * i));
  fips_compress(H, last);
  if (blocks == 2) fips_compress(H, last + 64);
  for (int i = 0; i < 8; i++) {
    out[4 * i] = (uint8_t)(H[i] >> 24); out[4 * i + 1] = (uint8_t)(H[i] >> 16);
    out[4 * i + 2] = (uint8_t)(H[i] >> 8); out[4 * i + 3] = (uint8_t)H[i];
  }
}
#endif
