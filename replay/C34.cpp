// native replay for C34: the REAL is_private_or_reserved_host (anonymous namespace of AdvertiseDiscovery.cpp, reached by
// #include) on a concrete host.  args: a b c d mapped(0/1) upper(0/1).  exit 1 = non-routable address NOT withheld
// (or routable dotted quad withheld), exit 0 = classified as the property requires.
#include "src/network/AdvertiseDiscovery.cpp"
#include <cstdio>
#include <cstdlib>
static bool spec_nonroutable(unsigned a, unsigned b, unsigned c, unsigned) {
    return a == 0 || a == 127 || a == 10 || (a == 172 && b >= 16 && b <= 31) || (a == 192 && b == 168) || (a == 169 && b == 254) ||
           (a == 100 && b >= 64 && b <= 127) || (a == 192 && b == 0 && c == 2) || (a == 198 && b == 51 && c == 100) ||
           (a == 203 && b == 0 && c == 113) || (a == 198 && (b == 18 || b == 19)) || a >= 224;
}
int main(int argc, char** argv) {
    if (argc < 7) return 2;
    unsigned o[4]; for (int i = 0; i < 4; ++i) o[i] = std::strtoul(argv[1 + i], nullptr, 0) & 0xFF;
    const bool mapped = std::atoi(argv[5]) != 0, upper = std::atoi(argv[6]) != 0;
    std::string host = std::to_string(o[0]) + "." + std::to_string(o[1]) + "." + std::to_string(o[2]) + "." + std::to_string(o[3]);
    if (mapped) host = std::string(upper ? "::FFFF:" : "::ffff:") + host;
    const bool got = ephemeralnet::network::is_private_or_reserved_host(host);
    const bool want = spec_nonroutable(o[0], o[1], o[2], o[3]);
    if (want && !got) { std::printf("REPRODUCED: host \"%s\" is non-routable but is_private_or_reserved_host returns false (it would be advertised)\n", host.c_str()); return 1; }
    if (!mapped && !want && got) { std::printf("REPRODUCED: routable host \"%s\" is classified as private\n", host.c_str()); return 1; }
    std::printf("host \"%s\": classified %s, as required\n", host.c_str(), got ? "non-routable" : "routable");
    return 0;
}
