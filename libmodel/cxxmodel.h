/* libmodel: C value models of the std entities the lowering maps to.  TRUSTED (listed in evidence). */
#ifndef CXXMODEL_H
#define CXXMODEL_H
#include <stdint.h>
#include <stddef.h>

/* ghost exception state: 0 = none, otherwise the kind thrown (see EXC in cxx2c.py) */
int __exc;
#define EXC_invalid_argument 1
#define EXC_runtime_error 2
#define EXC_length_error 3
#define EXC_out_of_range 4
#define EXC_logic_error 5
#define EXC_bad_optional_access 6
#define EXC_system_error 7
#define EXC_bad_alloc 8
#define EXC_filesystem_error 9

#ifndef CXX_NATIVE
#define CXX_ASSERT(c, msg) __CPROVER_assert(c, msg)
#else
#include <assert.h>
#include <stdlib.h>
#include <string.h>
#define CXX_ASSERT(c, msg) assert((c) && msg)
#endif

/* a bound of the MODEL (capacity of a container model): exceeding it makes the run undecided, never a violation */
#define CXX_MODEL_BOUND(c) CXX_ASSERT(c, "MODEL-BOUND: container model capacity exceeded")
#ifndef CXX_VEC_CAP
#define CXX_VEC_CAP 160
#endif

/* library precondition helper: value v must be <= bound (UB in the real library otherwise) */
static inline uint64_t cxx_precond_le(uint64_t v, uint64_t bound)
{
  CXX_ASSERT(v <= bound, "library precondition: offset/count within range");
  return v;
}

/* ghost observation points for the memcpy contract (two arbitrary-but-fixed destination addresses) */
const uint8_t *__g_mc_q1, *__g_mc_q2;
#ifndef CXX_NATIVE
#define CXX_MC_OBS(q) ((__CPROVER_same_object((q), dst) && __CPROVER_POINTER_OFFSET(q) >= __CPROVER_POINTER_OFFSET(dst) && \
                        __CPROVER_POINTER_OFFSET(q) < __CPROVER_POINTER_OFFSET(dst) + n) ==> \
                       *(q) == ((const uint8_t *)src)[__CPROVER_POINTER_OFFSET(q) - __CPROVER_POINTER_OFFSET(dst)])
#endif
static inline void *cxx_memcpy(void *dst, const void *src, uint64_t n)
#ifndef CXX_NATIVE
__CPROVER_requires(n == 0 || (__CPROVER_r_ok(src, n) && __CPROVER_w_ok(dst, n)))
__CPROVER_assigns(n != 0: __CPROVER_object_upto(dst, n))
__CPROVER_ensures(CXX_MC_OBS(__g_mc_q1))
__CPROVER_ensures(CXX_MC_OBS(__g_mc_q2))
__CPROVER_ensures(__CPROVER_return_value == dst)
#endif
{
  uint8_t *d = (uint8_t *)dst;
  const uint8_t *s = (const uint8_t *)src;
  for (uint64_t __k = 0; __k < n; ++__k) d[__k] = s[__k];
  return dst;
}
static inline void *cxx_memmove(void *dst, const void *src, uint64_t n)
{
  uint8_t *d = (uint8_t *)dst;
  const uint8_t *s = (const uint8_t *)src;
  if (d <= s) { for (uint64_t __k = 0; __k < n; ++__k) d[__k] = s[__k]; }
  else { for (uint64_t __k = n; __k > 0; --__k) d[__k - 1] = s[__k - 1]; }
  return dst;
}
static inline void *cxx_memset(void *dst, int c, uint64_t n)
{
  uint8_t *d = (uint8_t *)dst;
  for (uint64_t __k = 0; __k < n; ++__k) d[__k] = (uint8_t)c;
  return dst;
}
static inline int cxx_memcmp(const void *a, const void *b, uint64_t n)
{
  const uint8_t *x = (const uint8_t *)a;
  const uint8_t *y = (const uint8_t *)b;
  for (uint64_t __k = 0; __k < n; ++__k) {
    if (x[__k] != y[__k]) return x[__k] < y[__k] ? -1 : 1;
  }
  return 0;
}
static inline uint32_t cxx_bswap32(uint32_t v)
{ /* htonl/ntohl on the little-endian hosts the repository builds for */
  return (v >> 24) | ((v >> 8) & 0xFF00u) | ((v << 8) & 0xFF0000u) | (v << 24);
}
/* std::countl_zero for an unsigned value of width w (w <= 64): number of leading zero bits, w for 0.  Loop-free. */
static inline int cxx_countl_zero(uint64_t v, int w)
{
  if (v == 0) return w;
  int n = 0;
  if (!(v >> 32)) { n += 32; v <<= 32; }
  if (!(v >> 48)) { n += 16; v <<= 16; }
  if (!(v >> 56)) { n += 8; v <<= 8; }
  if (!(v >> 60)) { n += 4; v <<= 4; }
  if (!(v >> 62)) { n += 2; v <<= 2; }
  if (!(v >> 63)) { n += 1; }
  return n - (64 - w);
}
static inline uint16_t cxx_bswap16(uint16_t v) { return (uint16_t)((v >> 8) | (v << 8)); }

#define CXX_FILL(T, S) \
  static inline void cxx_fill_##S(T *first, T *last, T v) { for (T *__p = first; __p != last; ++__p) *__p = v; }
#define CXX_COPY(T, S) \
  static inline T *cxx_copy_##S(const T *first, const T *last, T *out) \
  { for (const T *__p = first; __p != last; ++__p) { *out = *__p; ++out; } return out; }
#define CXX_EQUAL(T, S) \
  static inline _Bool cxx_equal_##S(const T *first, const T *last, const T *other) \
  { for (const T *__p = first; __p != last; ++__p) { if (!(*__p == *other)) return 0; ++other; } return 1; }
#define CXX_REVERSE(T, S) \
  static inline void cxx_reverse_##S(T *first, T *last) \
  { while (first != last && first != --last) { T __t = *first; *first = *last; *last = __t; ++first; } }


/* ------------------------------------------------------------------ system records */
typedef struct cxx_in_addr { uint32_t s_addr; } cxx_in_addr;
typedef struct cxx_in6_addr { uint8_t s6_addr[16]; } cxx_in6_addr;
typedef struct cxx_timeval { int64_t tv_sec; int64_t tv_usec; } cxx_timeval;
typedef struct cxx_random_device { char _; } cxx_random_device;
typedef struct cxx_rng { char _; } cxx_rng;
typedef struct cxx_path { char _; } cxx_path;   /* std::filesystem::path: opaque (its text is not modelled) */   /* std::mt19937(_64) / uniform_int_distribution: opaque */
#ifndef CXX_NATIVE
uint32_t nondet_u32(void);
static inline uint32_t cxx_nondet_u32(void) { return nondet_u32(); }   /* std::random_device: any value */
uint64_t nondet_u64(void); int nondet_int(void);
static inline uint64_t cxx_nondet_u64(void) { return nondet_u64(); }
static inline int cxx_nondet_int(void) { return nondet_int(); }
#endif

#ifndef CXX_NATIVE
void *malloc(__CPROVER_size_t);
static inline void *cxx_alloc(uint64_t bytes)
{
  void *p = malloc(bytes ? bytes : 1);
  __CPROVER_assume(p != 0);   /* allocator failure (std::bad_alloc) is assumed not to occur */
  return p;
}
#else
static inline void *cxx_alloc(uint64_t bytes) { void *p = malloc(bytes ? bytes : 1); if (!p) abort(); return p; }
#endif

/* inet_ntop model: AF_INET (2) / AF_INET6 (10) with a large-enough buffer never fails; the produced text is an
   uninterpreted, NUL-terminated function of (af, address bytes), recorded in ghost state for the contracts. */
int      __g_ntop_calls;
int      __g_ntop_af;
uint8_t  __g_ntop_bytes[16];
#ifndef CXX_NATIVE
#define NTOP_SRC(i) (((const uint8_t *)src)[i])
static inline const char *cxx_inet_ntop(int af, const void *src, char *dst, uint32_t size)
__CPROVER_requires((af == 2 || af == 10) && size >= (af == 2 ? 16u : 46u))
__CPROVER_requires(__CPROVER_r_ok(src, af == 2 ? 4 : 16) && __CPROVER_w_ok(dst, size))
__CPROVER_assigns(__g_ntop_calls, __g_ntop_af, __CPROVER_object_whole(__g_ntop_bytes), __CPROVER_object_upto(dst, size))
__CPROVER_ensures(__g_ntop_calls == __CPROVER_old(__g_ntop_calls) + 1 && __g_ntop_af == af && __CPROVER_return_value == dst)
__CPROVER_ensures(__g_ntop_bytes[0] == NTOP_SRC(0) && __g_ntop_bytes[1] == NTOP_SRC(1) && __g_ntop_bytes[2] == NTOP_SRC(2) && __g_ntop_bytes[3] == NTOP_SRC(3))
__CPROVER_ensures(af == 10 ==> (__g_ntop_bytes[4] == NTOP_SRC(4) && __g_ntop_bytes[5] == NTOP_SRC(5) && __g_ntop_bytes[6] == NTOP_SRC(6) && __g_ntop_bytes[7] == NTOP_SRC(7)))
__CPROVER_ensures(af == 10 ==> (__g_ntop_bytes[8] == NTOP_SRC(8) && __g_ntop_bytes[9] == NTOP_SRC(9) && __g_ntop_bytes[10] == NTOP_SRC(10) && __g_ntop_bytes[11] == NTOP_SRC(11)))
__CPROVER_ensures(af == 10 ==> (__g_ntop_bytes[12] == NTOP_SRC(12) && __g_ntop_bytes[13] == NTOP_SRC(13) && __g_ntop_bytes[14] == NTOP_SRC(14) && __g_ntop_bytes[15] == NTOP_SRC(15)))
{
  CXX_ASSERT(af == 2 || af == 10, "inet_ntop: known address family");
  CXX_ASSERT(size >= (af == 2 ? 16u : 46u), "inet_ntop: buffer large enough (no ENOSPC)");
  __g_ntop_af = af;
  for (int __q = 0; __q < 16; ++__q) __g_ntop_bytes[__q] = (__q < (af == 2 ? 4 : 16)) ? ((const uint8_t *)src)[__q] : 0;
  __g_ntop_calls++;
  uint32_t cap = (af == 2 ? 16u : 46u);
  __CPROVER_havoc_slice(dst, cap);          /* uninterpreted text ... */
  uint32_t len;
  __CPROVER_assume(len >= 2 && len < cap);
  __CPROVER_assume(dst[0] != 0);
  dst[len] = 0;                             /* ... that is NUL-terminated inside the buffer */
  return dst;
}
#endif

/* clocks: ghost monotone readings.  By default every call returns an arbitrary value not smaller than the previous one (so "exactly at
   the deadline" is just one symbolic case); with __g_clock_fixed the harness sets the reading explicitly. */
int64_t __g_clock_steady, __g_clock_system; _Bool __g_clock_fixed;
#ifndef CXX_NATIVE
int64_t nondet_i64(void);
static inline int64_t cxx_clock_now_steady(void)
{ if (!__g_clock_fixed) { int64_t t = nondet_i64(); __CPROVER_assume(t >= __g_clock_steady && t <= 4600000000000000000l); __g_clock_steady = t; } return __g_clock_steady; }
static inline int64_t cxx_clock_now_system(void)
{ if (!__g_clock_fixed) { int64_t t = nondet_i64(); __CPROVER_assume(t >= __g_clock_system && t <= 4600000000000000000l); __g_clock_system = t; } return __g_clock_system; }
#endif
static inline uint64_t cxx_strlen(const char *s) { uint64_t n = 0; while (s[n] != 0) ++n; return n; }
static inline int cxx_isdigit(int c) { return c >= '0' && c <= '9'; }
static inline int cxx_isxdigit(int c) { return (c >= '0' && c <= '9') || (c >= 'a' && c <= 'f') || (c >= 'A' && c <= 'F'); }
static inline int cxx_isspace(int c) { return c == ' ' || (c >= 9 && c <= 13); }
static inline int cxx_isalpha(int c) { return (c >= 'a' && c <= 'z') || (c >= 'A' && c <= 'Z'); }
static inline int cxx_isalnum(int c) { return cxx_isalpha(c) || cxx_isdigit(c); }
static inline int cxx_iscntrl(int c) { return (c >= 0 && c < 32) || c == 127; }   /* "C" locale */
static inline int cxx_isprint(int c) { return c >= 32 && c < 127; }
static inline int cxx_tolower(int c) { return (c >= 'A' && c <= 'Z') ? c + 32 : c; }
static inline int cxx_toupper(int c) { return (c >= 'a' && c <= 'z') ? c - 32 : c; }

uint64_t __g_vec_b;   /* ghost: arbitrary-but-fixed byte index observed by the container-copy contracts */

/* ------------------------------------------------------------------ std::vector<T> value model
   {p,n,cap}: p owns n elements (cap is unobservable and unused).  Copies are deep (vec_S_clone), moves are struct
   copies.  Storage is never freed.  Each function also carries a contract so that unbounded proofs can use
   --replace-call-with-contract instead of the looping body. */
/* storage size of a modelled reserve(c): exact by default; bounded groups may ask for constant-size storage
   (-DCXX_RESERVE_CONST_STORAGE) because a symbolic object size exhausts the SAT back end when the loops are unwound */
#ifdef CXX_RESERVE_CONST_STORAGE
#define CXX_RESERVE_BYTES(c, T) ((c) <= CXX_VEC_CAP ? CXX_VEC_CAP * sizeof(T) : (c) * sizeof(T))
#else
#define CXX_RESERVE_BYTES(c, T) ((c) * sizeof(T))
#endif
#ifdef CXX_FIXED_STORAGE   /* bounded groups: constant-size element storage (see cxx_str_bytes) */
static inline uint64_t cxx_vec_bytes(uint64_t n, uint64_t sz) { CXX_MODEL_BOUND(n <= CXX_VEC_CAP); return CXX_VEC_CAP * sz; }
#else
static inline uint64_t cxx_vec_bytes(uint64_t n, uint64_t sz) { return n * sz; }
#endif
#define CXX_VEC(T, S) \
  static inline void vec_##S##_resize(vec_##S *v, uint64_t n) \
  __CPROVER_requires(__CPROVER_rw_ok(v, sizeof(*v)) && n <= 0x0FFFFFFFFFFFFFFFul / sizeof(T)) \
  __CPROVER_assigns(v->p, v->n, v->cap) \
  __CPROVER_ensures(v->n == n && v->cap == n && (n == 0 || __CPROVER_is_fresh(v->p, n * sizeof(T)))) \
  { T *np = (T *)cxx_alloc(cxx_vec_bytes(n, sizeof(T))); \
    for (uint64_t __k = 0; __k < n; ++__k) { if (__k < v->n) np[__k] = v->p[__k]; else { T z = {0}; np[__k] = z; } } \
    v->p = np; v->n = n; v->cap = n; } \
  static inline void vec_##S##_resize_fill(vec_##S *v, uint64_t n, T val) \
  { T *np = (T *)cxx_alloc(cxx_vec_bytes(n, sizeof(T))); \
    for (uint64_t __k = 0; __k < n; ++__k) { if (__k < v->n) np[__k] = v->p[__k]; else np[__k] = val; } \
    v->p = np; v->n = n; v->cap = n; } \
  static inline void vec_##S##_clear(vec_##S *v) { v->n = 0; } \
  static inline void vec_##S##_reserve(vec_##S *v, uint64_t c) \
  { /* only lowered under '@option model_reserve': storage for c elements; push_back below capacity does not reallocate */ \
    if (c > v->cap) { T *np = (T *)cxx_alloc(CXX_RESERVE_BYTES(c, T)); \
      for (uint64_t __k = 0; __k < v->n; ++__k) np[__k] = v->p[__k]; \
      v->p = np; v->cap = c; } } \
  static inline void vec_##S##_grow(vec_##S *v, uint64_t need) \
  { /* storage grows once to CXX_VEC_CAP elements; growing beyond it is a bound of the MODEL, not of the code */ \
    if (need > v->cap) { \
      CXX_MODEL_BOUND(need <= CXX_VEC_CAP); \
      T *np = (T *)cxx_alloc(CXX_VEC_CAP * sizeof(T)); \
      for (uint64_t __k = 0; __k < v->n; ++__k) np[__k] = v->p[__k]; \
      v->p = np; v->cap = CXX_VEC_CAP; } } \
  static inline void vec_##S##_push_back(vec_##S *v, T val) \
  /* contract (for unbounded proofs): one more element, storage possibly reallocated; element VALUES are not described, \
     i.e. the contract over-approximates the contents (sound for properties that do not depend on them) */ \
  __CPROVER_requires(__CPROVER_rw_ok(v, sizeof(*v)) && v->n < 0xFFFFFFFFul) \
  __CPROVER_assigns(v->p, v->n, v->cap) \
  __CPROVER_ensures(v->n == __CPROVER_old(v->n) + 1 && v->cap >= v->n && __CPROVER_is_fresh(v->p, v->n * sizeof(T))) \
  { vec_##S##_grow(v, v->n + 1); v->p[v->n] = val; v->n = v->n + 1; } \
  static inline void vec_##S##_push_back_reserved(vec_##S *v, T val) \
  /* push_back on a vector whose reserve() is modelled ('@option model_reserve <names>'): below capacity the storage and the \
     capacity are kept (the C++ guarantee after reserve()); at capacity fresh storage is returned */ \
  __CPROVER_requires(__CPROVER_rw_ok(v, sizeof(*v)) && v->n < 0xFFFFFFFFul) \
  __CPROVER_requires(v->n < v->cap ==> __CPROVER_rw_ok(v->p, v->cap * sizeof(T))) \
  __CPROVER_assigns(v->n; v->n >= v->cap: v->p, v->cap; v->n < v->cap: __CPROVER_object_whole(v->p)) \
  __CPROVER_ensures(v->n == __CPROVER_old(v->n) + 1 && v->cap >= v->n) \
  __CPROVER_ensures(__CPROVER_old(v->n) < __CPROVER_old(v->cap) ==> (v->p == __CPROVER_old(v->p) && v->cap == __CPROVER_old(v->cap))) \
  __CPROVER_ensures(__CPROVER_old(v->n) >= __CPROVER_old(v->cap) ==> __CPROVER_is_fresh(v->p, v->n * sizeof(T))) \
  { vec_##S##_grow(v, v->n + 1); v->p[v->n] = val; v->n = v->n + 1; } \
  static inline void vec_##S##_pop_back(vec_##S *v) { CXX_ASSERT(v->n > 0, "pop_back on empty vector"); v->n--; } \
  static inline void vec_##S##_pop_front(vec_##S *v) { CXX_ASSERT(v->n > 0, "pop_front on empty deque"); v->p++; v->n--; } \
  static inline vec_##S vec_##S##_clone(vec_##S o) \
  { vec_##S r; r.p = (T *)cxx_alloc(cxx_vec_bytes(o.n, sizeof(T))); r.n = o.n; r.cap = o.n; \
    for (uint64_t __k = 0; __k < o.n; ++__k) r.p[__k] = o.p[__k]; return r; } \
  static inline vec_##S vec_##S##_from_range(const T *first, const T *last) \
  __CPROVER_requires(__CPROVER_same_object(first, last) && __CPROVER_POINTER_OFFSET(first) <= __CPROVER_POINTER_OFFSET(last)) \
  __CPROVER_requires(first == last || __CPROVER_r_ok(first, (uint64_t)(last - first) * sizeof(T))) \
  __CPROVER_assigns() \
  __CPROVER_ensures(__CPROVER_return_value.n == (uint64_t)(last - first)) \
  __CPROVER_ensures(__CPROVER_is_fresh(__CPROVER_return_value.p, (uint64_t)(last - first) * sizeof(T) + 1)) \
  __CPROVER_ensures(__g_vec_b < (uint64_t)(last - first) * sizeof(T) ==> \
                    ((const uint8_t *)__CPROVER_return_value.p)[__g_vec_b] == ((const uint8_t *)first)[__g_vec_b]) \
  { vec_##S r; uint64_t n = (uint64_t)(last - first); r.p = (T *)cxx_alloc(cxx_vec_bytes(n, sizeof(T))); r.n = n; r.cap = n; \
    for (uint64_t __k = 0; __k < n; ++__k) r.p[__k] = first[__k]; return r; } \
  static inline vec_##S vec_##S##_filled(uint64_t n, T val) \
  { vec_##S r; r.p = (T *)cxx_alloc(cxx_vec_bytes(n, sizeof(T))); r.n = n; r.cap = n; \
    for (uint64_t __k = 0; __k < n; ++__k) r.p[__k] = val; return r; } \
  static inline void vec_##S##_assign_range(vec_##S *v, const T *first, const T *last) \
  __CPROVER_requires(__CPROVER_w_ok(v, sizeof(*v))) \
  __CPROVER_requires(__CPROVER_same_object(first, last) && __CPROVER_POINTER_OFFSET(first) <= __CPROVER_POINTER_OFFSET(last)) \
  __CPROVER_requires(first == last || __CPROVER_r_ok(first, (uint64_t)(last - first) * sizeof(T))) \
  __CPROVER_assigns(*v) \
  __CPROVER_ensures(v->n == (uint64_t)(last - first)) \
  __CPROVER_ensures(__CPROVER_is_fresh(v->p, (uint64_t)(last - first) * sizeof(T) + 1)) \
  __CPROVER_ensures(__g_vec_b < (uint64_t)(last - first) * sizeof(T) ==> ((const uint8_t *)v->p)[__g_vec_b] == ((const uint8_t *)first)[__g_vec_b]) \
  { *v = vec_##S##_from_range(first, last); } \
  static inline void vec_##S##_assign_fill(vec_##S *v, uint64_t n, T val) { *v = vec_##S##_filled(n, val); } \
  static inline T *vec_##S##_insert_range(vec_##S *v, T *pos, const T *first, const T *last) \
  { uint64_t at = (uint64_t)(pos - v->p); uint64_t m = (uint64_t)(last - first); \
    CXX_ASSERT(at <= v->n, "insert position inside vector"); \
    vec_##S##_grow(v, v->n + m); \
    for (uint64_t __k = v->n; __k > at; --__k) v->p[__k - 1 + m] = v->p[__k - 1]; \
    for (uint64_t __k = 0; __k < m; ++__k) v->p[at + __k] = first[__k]; \
    v->n += m; return v->p + at; } \
  static inline T *vec_##S##_erase_range(vec_##S *v, T *first, T *last) \
  { if (first == last) return first;   /* empty range (also of a value-initialised vector, whose begin() is a null pointer) */ \
    uint64_t a = (uint64_t)(first - v->p); uint64_t b = (uint64_t)(last - v->p); \
    CXX_ASSERT(a <= b && b <= v->n, "erase range inside vector"); \
    for (uint64_t __k = b; __k < v->n; ++__k) v->p[a + (__k - b)] = v->p[__k]; \
    v->n -= (b - a); return v->p + a; }

/* ------------------------------------------------------------------ std::string value model (same shape as vector<char>;
   p[n] is NOT required to be a NUL: c_str() users must go through str_cstr) */
/* storage size of a string of n characters: exact by default.  Bounded groups may ask for constant-size storage
   (-DCXX_FIXED_STORAGE, with -DCXX_VEC_CAP=<bytes>): CBMC bit-blasts small constant-size arrays directly, while objects of
   symbolic size go through the array theory (measured: 18M clauses vs. a fraction of that).  Exceeding the capacity is a
   MODEL-BOUND failure (undecided), never a verdict. */
#ifdef CXX_FIXED_STORAGE
static inline uint64_t cxx_str_bytes(uint64_t n) { CXX_MODEL_BOUND(n + 1 <= CXX_VEC_CAP); return CXX_VEC_CAP; }
#else
static inline uint64_t cxx_str_bytes(uint64_t n) { return n + 1; }
#endif
#define CXX_STR() \
  static inline str str_from_n(const char *s, uint64_t n) \
  __CPROVER_requires(n == 0 || __CPROVER_r_ok(s, n)) \
  __CPROVER_requires(n < 0x00FFFFFFFFFFFFFFul) \
  __CPROVER_assigns() \
  __CPROVER_ensures(__CPROVER_return_value.n == n && __CPROVER_is_fresh(__CPROVER_return_value.p, n + 1)) \
  __CPROVER_ensures(__g_vec_b < n ==> __CPROVER_return_value.p[__g_vec_b] == s[__g_vec_b]) \
  { str r; r.p = (char *)cxx_alloc(cxx_str_bytes(n)); r.n = n; r.cap = n; \
    for (uint64_t __k = 0; __k < n; ++__k) r.p[__k] = s[__k]; r.p[n] = 0; return r; } \
  static inline str str_from_cstr(const char *s) \
  __CPROVER_requires(__CPROVER_r_ok(s, 1)) \
  __CPROVER_assigns() \
  __CPROVER_ensures(__CPROVER_return_value.n < 0x100000000ul && __CPROVER_is_fresh(__CPROVER_return_value.p, __CPROVER_return_value.n + 1)) \
  { return str_from_n(s, cxx_strlen(s)); } \
  static inline str str_clone(str o) { return str_from_n(o.p, o.n); } \
  static inline str cxx_path_filename(str o) \
  { /* std::filesystem::path::filename() on POSIX: the text after the last '/' (empty for "", "/", "dir/") */ \
    uint64_t b = 0; for (uint64_t __k = 0; __k < o.n; ++__k) if (o.p[__k] == '/') b = __k + 1; \
    return str_from_n(o.p + b, o.n - b); } \
  static inline str str_filled(uint64_t n, char c) \
  { str r; r.p = (char *)cxx_alloc(cxx_str_bytes(n)); r.n = n; r.cap = n; for (uint64_t __k = 0; __k < n; ++__k) r.p[__k] = c; r.p[n] = 0; return r; } \
  static inline void str_clear(str *v) { v->n = 0; } \
  static inline void str_assign_range(str *v, const char *first, const char *last) { *v = str_from_n(first, (uint64_t)(last - first)); } \
  static inline void str_append_n(str *v, const char *s, uint64_t m) \
  { char *np = (char *)cxx_alloc(cxx_str_bytes(v->n + m)); \
    for (uint64_t __k = 0; __k < v->n; ++__k) np[__k] = v->p[__k]; \
    for (uint64_t __k = 0; __k < m; ++__k) np[v->n + __k] = s[__k]; \
    np[v->n + m] = 0; v->p = np; v->n += m; v->cap = v->n; } \
  static inline void str_push_back(str *v, char c) \
  { /* amortised like std::string: storage grows once to CXX_VEC_CAP bytes (a bound of the MODEL), then appends in place */ \
    if (v->n + 1 >= v->cap) { \
      CXX_MODEL_BOUND(v->n + 2 <= CXX_VEC_CAP); \
      char *np = (char *)cxx_alloc(CXX_VEC_CAP); \
      for (uint64_t __k = 0; __k < v->n; ++__k) np[__k] = v->p[__k]; \
      v->p = np; v->cap = CXX_VEC_CAP; } \
    v->p[v->n] = c; v->n = v->n + 1; v->p[v->n] = 0; } \
  static inline void str_append(str *v, str o) { str_append_n(v, o.p, o.n); } \
  static inline void str_append_cstr(str *v, const char *s) { str_append_n(v, s, cxx_strlen(s)); } \
  static inline void str_append_fill(str *v, uint64_t m, char c) { for (uint64_t __k = 0; __k < m; ++__k) str_push_back(v, c); } \
  static inline void str_pop_back(str *v) { CXX_ASSERT(v->n > 0, "pop_back on empty string"); v->n--; } \
  static inline void str_resize(str *v, uint64_t n) \
  { char *np = (char *)cxx_alloc(cxx_str_bytes(n)); for (uint64_t __k = 0; __k < n; ++__k) np[__k] = (__k < v->n) ? v->p[__k] : 0; \
    np[n] = 0; v->p = np; v->n = n; v->cap = n; } \
  static inline _Bool str_eq_cstr(str a, const char *s) \
  { uint64_t m = cxx_strlen(s); if (m != a.n) return 0; for (uint64_t __k = 0; __k < m; ++__k) if (a.p[__k] != s[__k]) return 0; return 1; } \
  static inline char *str_erase_range(str *v, char *first, char *last) \
  { if (first == last) return first; \
    uint64_t a = (uint64_t)(first - v->p); uint64_t b = (uint64_t)(last - v->p); \
    CXX_ASSERT(a <= b && b <= v->n, "erase range inside string"); \
    for (uint64_t __k = b; __k < v->n; ++__k) v->p[a + (__k - b)] = v->p[__k]; \
    v->n -= (b - a); return v->p + a; } \
  static inline void str_erase_pos(str *v, uint64_t pos, uint64_t cnt) \
  { if (pos > v->n) { __exc = EXC_out_of_range; return; } \
    uint64_t m = v->n - pos; if (cnt < m) m = cnt; \
    for (uint64_t __k = pos + m; __k < v->n; ++__k) v->p[__k - m] = v->p[__k]; \
    v->n -= m; } \
  static inline str str_substr(str a, uint64_t pos, uint64_t cnt) \
  /* contract (for unbounded proofs): length and freshness of the result; its characters are not described */ \
  __CPROVER_requires(a.n <= 0x0000FFFFFFFFFFFFul && (a.n == 0 || __CPROVER_r_ok(a.p, a.n))) \
  __CPROVER_assigns(__exc) \
  __CPROVER_ensures((pos > a.n) ==> (__exc == EXC_out_of_range)) \
  __CPROVER_ensures((pos <= a.n) ==> (__exc == __CPROVER_old(__exc) && __CPROVER_return_value.n == (cnt < a.n - pos ? cnt : a.n - pos) && __CPROVER_is_fresh(__CPROVER_return_value.p, __CPROVER_return_value.n + 1))) \
  { if (pos > a.n) { __exc = EXC_out_of_range; str z = {0}; return z; } \
    uint64_t m = a.n - pos; if (cnt < m) m = cnt; return str_from_n(a.p + pos, m); } \
  static inline strview strview_from_cstr(const char *s) { strview r; r.p = (char *)s; r.n = cxx_strlen(s); return r; } \
  static inline strview strview_substr(strview a, uint64_t pos, uint64_t cnt) \
  { CXX_ASSERT(pos <= a.n, "string_view::substr position (throws out_of_range otherwise)"); \
    strview r; uint64_t m = a.n - pos; if (cnt < m) m = cnt; r.p = a.p + pos; r.n = m; return r; }
/* ------------------------------------------------------------------ std::ostringstream: the text plus the formatting state the
   lowered code sets.  Integers are written in base 10 or 16 (std::hex), upper case with std::uppercase, padded on the left with the
   fill character to the width set by std::setw, which applies to the next formatted item only (as in the library; character and
   string output is padded too, none of the lowered call sites does that) */
#define CXX_OSS() \
  static inline void cxx_oss_pad(cxx_oss *o, uint64_t len) \
  { char f = o->fill ? o->fill : ' '; for (uint64_t __k = len; __k < o->width; ++__k) str_push_back(&o->buf, f); o->width = 0; } \
  static inline void cxx_oss_put_n(cxx_oss *o, const char *s, uint64_t n) { cxx_oss_pad(o, n); str_append_n(&o->buf, s, n); } \
  static inline void cxx_oss_put_cstr(cxx_oss *o, const char *s) { cxx_oss_put_n(o, s, cxx_strlen(s)); } \
  static inline void cxx_oss_put_char(cxx_oss *o, char c) { cxx_oss_pad(o, 1); str_push_back(&o->buf, c); } \
  static inline void cxx_oss_put_u64(cxx_oss *o, uint64_t v, _Bool neg) \
  { char d[24]; uint64_t n = 0; uint64_t b = (o->base == 16) ? 16 : 10; \
    do { uint64_t r = v % b; d[n++] = (char)(r < 10 ? '0' + r : (o->upper ? 'A' : 'a') + (r - 10)); v /= b; } while (v != 0 && n < 22); \
    if (neg) d[n++] = '-'; \
    cxx_oss_pad(o, n); \
    for (uint64_t __k = n; __k > 0; --__k) str_push_back(&o->buf, d[__k - 1]); } \
  static inline void cxx_oss_put_i64(cxx_oss *o, int64_t v) \
  { if (o->base == 16) cxx_oss_put_u64(o, (uint64_t)v, 0); else if (v < 0) cxx_oss_put_u64(o, (uint64_t)0 - (uint64_t)v, 1); else cxx_oss_put_u64(o, (uint64_t)v, 0); }

/* s.rfind(lit, 0): 0 if s starts with lit, npos otherwise */
static inline uint64_t cxx_rfind0_cstr(const char *p, uint64_t n, const char *lit)
#ifndef CXX_NATIVE
__CPROVER_requires(n == 0 || __CPROVER_r_ok(p, n))
__CPROVER_assigns()
__CPROVER_ensures(__CPROVER_return_value == 0 || __CPROVER_return_value == (uint64_t)-1)
#endif
{ uint64_t m = cxx_strlen(lit); if (m > n) return (uint64_t)-1; for (uint64_t __k = 0; __k < m; ++__k) if (p[__k] != lit[__k]) return (uint64_t)-1; return 0; }
/* s.find_first_of(set, from): first position >= from whose character occurs in the NUL-terminated set, npos if none */
static inline uint64_t cxx_find_first_of_cstr(const char *p, uint64_t n, const char *set, uint64_t from)
{ uint64_t m = cxx_strlen(set); for (uint64_t __k = from; __k < n; ++__k) for (uint64_t __j = 0; __j < m; ++__j) if (p[__k] == set[__j]) return __k; return (uint64_t)-1; }
static inline uint64_t cxx_find_char(const char *p, uint64_t n, char c, uint64_t from)
{ for (uint64_t __k = from; __k < n; ++__k) if (p[__k] == c) return __k; return (uint64_t)-1; }

#endif
