#!/bin/bash
# validate_seed.sh <PROP> <variant> : confirm a seeded change (from /tmp/seeded/<PROP>/<variant>) in a scratch worktree:
# applies, builds, full test suite passes, demo fails with the change and passes without it.  Writes
# /verif/seeded/<PROP>-<variant>/{patch.diff,demo*,run_demo.sh,meta.json,validation.json}
set -u
P=$1; V=$2
SRC=/tmp/seeded/$P/$V
WT=/tmp/wtv/$P-$V
OUT=/verif/seeded/$P-$V
LOG=/tmp/wtv/$P-$V.log
mkdir -p /tmp/wtv "$OUT"
exec > "$LOG" 2>&1
rm -rf "$WT"; git -C /repo worktree prune
git -C /repo worktree add --detach "$WT" HEAD || exit 2
cd "$WT"
build() { cmake -G Ninja -B _build -DCMAKE_BUILD_TYPE=RelWithDebInfo -DCMAKE_CXX_FLAGS=-Wno-error >/dev/null && cmake --build _build -j12 -- -k 0 >/dev/null 2>&1; test -f _build/libephemeralnet_core.a; }
res() { python3 - "$@" <<'PY'
import json,sys
out,applies,builds,passed,failed,demo_with,demo_without=sys.argv[1:8]
json.dump({'applies':applies=='0','builds':builds=='0','tests_passed':int(passed),'tests_failed':failed,'demo_exit_with_change':int(demo_with),'demo_exit_without_change':int(demo_without),
 'confirmed': applies=='0' and builds=='0' and int(passed)>=46 and failed=='' and int(demo_with)!=0 and int(demo_without)==0}, open(out+'/validation.json','w'), indent=1)
PY
}
build; b0=$?
bash "$SRC/run_demo.sh" "$WT" >/dev/null 2>&1; d0=$?
git apply "$SRC/patch.diff"; a=$?
build; b=$?
# full suite; re-run failures once alone (port clashes with other concurrent runs)
ctest --test-dir _build -j6 --timeout 900 > ctest.log 2>&1
failed=$(grep -E "^\s*[0-9]+ - .*\((Failed|Timeout)\)" ctest.log | sed -E 's/^\s*[0-9]+ - ([^ ]+).*/\1/' | grep -v CLIFetchDir | tr '\n' ' ')
still=""
for t in $failed; do ctest --test-dir _build -R "^$t\$" --timeout 900 >/dev/null 2>&1 || still="$still$t "; done
passed=$(grep -cE "Test +#[0-9]+: .* Passed" ctest.log)
for t in $failed; do case " $still " in *" $t "*) ;; *) passed=$((passed+1));; esac; done
bash "$SRC/run_demo.sh" "$WT" > demo_with.log 2>&1; d1=$?
cp "$SRC"/patch.diff "$SRC"/meta.json "$SRC"/run_demo.sh "$OUT"/ 2>/dev/null; cp "$SRC"/demo* "$OUT"/ 2>/dev/null
tail -5 demo_with.log > "$OUT/demo_output_with_change.txt"
res "$OUT" $a $b $passed "$still" $d1 $d0
cd /; git -C /repo worktree remove --force "$WT"; rm -rf "$WT"
cat "$OUT/validation.json"
