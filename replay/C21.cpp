// native replay for C21 (announce admission): the REAL Node with an established session for peer A.  A baseline ANNOUNCE
// (valid PoW, valid manifest, names itself) is first shown to be accepted; then, for the scenario given, ONE admission
// condition is broken and the announce is delivered through Node::handle_transport_message.  exit 1 = node state changed.
#include "src/core/Node.cpp"
#include <cstdio>
using namespace ephemeralnet;
static PeerId self_id, peer;
static std::optional<std::array<std::uint8_t, 32>> session;
static std::string make_manifest(std::uint8_t tag, int threshold, int shards, long expires_in_s) {
    protocol::Manifest m{};
    m.chunk_id[0] = tag; m.chunk_id[1] = 0x21;
    m.threshold = static_cast<std::uint8_t>(threshold); m.total_shares = static_cast<std::uint8_t>(shards);
    for (int i = 0; i < shards; ++i) { protocol::KeyShard s{}; s.index = static_cast<std::uint8_t>(i + 1); s.value[0] = static_cast<std::uint8_t>(i + 7); m.shards.push_back(s); }
    m.expires_at = std::chrono::system_clock::now() + std::chrono::seconds(expires_in_s);
    return protocol::encode_manifest(m);
}
static bool state_for(Node& node, std::uint8_t tag) {
    ChunkId c{}; c[0] = tag; c[1] = 0x21;
    const auto key = chunk_id_to_string(c);
    return node.manifest_cache_.count(key) || node.dht_.shard_table_.count(key) || node.dht_.table_.count(key) || node.pending_chunk_fetches_.count(key);
}
static void deliver(Node& node, protocol::AnnouncePayload ap, bool solve_pow, std::uint8_t version = protocol::kCurrentMessageVersion) {
    if (solve_pow) compute_announce_pow(ap, node.config().announce_pow_difficulty);
    protocol::Message m{}; m.version = version; m.type = protocol::MessageType::Announce; m.payload = ap;
    network::TransportMessage tm{}; tm.peer_id = peer;
    tm.payload = protocol::encode_signed(m, std::span<const std::uint8_t>(session->data(), session->size()));
    node.handle_transport_message(tm);
}
static protocol::AnnouncePayload base(std::uint8_t tag, const std::string& uri) {
    protocol::AnnouncePayload ap{}; ap.chunk_id[0] = tag; ap.chunk_id[1] = 0x21; ap.peer_id = peer; ap.manifest_uri = uri;
    ap.ttl = std::chrono::seconds(60); ap.endpoint = "127.0.0.1:5555";
    return ap;
}
int main(int argc, char** argv) {
    const std::string scenario = argc > 1 ? argv[1] : "all";
    Config config{};
    config.handshake_pow_difficulty = 6; config.announce_pow_difficulty = 6; config.identity_seed = 31u;
    config.announce_min_interval = std::chrono::seconds(1); config.announce_burst_limit = 50; config.announce_burst_window = std::chrono::seconds(2);
    self_id[0] = 0xB2; peer[0] = 0xA2;
    Node node(self_id, config);
    const std::uint32_t key1 = network::KeyExchange::compute_public(99991u);
    std::uint64_t n1 = 0;
    if (!compute_handshake_pow(peer, self_id, key1, node.config().handshake_pow_difficulty, n1) || !node.perform_handshake(peer, key1, n1)) { std::printf("setup failed\n"); return 2; }
    session = node.session_key(peer);
    deliver(node, base(1, make_manifest(1, 1, 1, 3600)), true);
    if (!state_for(node, 1)) { std::printf("baseline announce was not accepted: replay inconclusive\n"); return 2; }
    const char* all[] = {"other_peer", "bad_pow", "old_version", "wrong_chunk", "few_shards", "expired", "garbage", "too_fast", "foreign_share"};
    int rc = 0;
    for (const char* sc : all) {
        if (scenario != "all" && scenario != sc) continue;
        std::this_thread::sleep_for(std::chrono::milliseconds(1100));      // stay clear of the (1 s) minimum interval
        node.clear_announce_failures(peer);
        const std::uint8_t tag = static_cast<std::uint8_t>(10 + (&sc - all));
        auto ap = base(tag, make_manifest(tag, 1, 1, 3600));
        bool pow = true; std::uint8_t version = protocol::kCurrentMessageVersion;
        const std::string s = sc;
        if (s == "other_peer") { ap.peer_id[5] ^= 0x55; }
        else if (s == "bad_pow") { pow = false; ap.work_nonce = 0; while (announce_pow_valid(ap, node.config().announce_pow_difficulty)) ++ap.work_nonce; }
        else if (s == "old_version") { version = 2; }
        else if (s == "wrong_chunk") { ap.manifest_uri = make_manifest(static_cast<std::uint8_t>(tag + 100), 1, 1, 3600); }
        else if (s == "few_shards") { ap.manifest_uri = make_manifest(tag, 3, 3, 3600); auto m = protocol::decode_manifest(ap.manifest_uri); m.shards.resize(1); ap.manifest_uri = protocol::encode_manifest(m); }
        else if (s == "foreign_share") { ap.manifest_uri = make_manifest(tag, 2, 3, 3600); auto m = protocol::decode_manifest(ap.manifest_uri); m.shards.resize(2); ap.manifest_uri = protocol::encode_manifest(m); ap.assigned_shards = {3}; }   // share 3 is not carried
        else if (s == "expired") { ap.manifest_uri = make_manifest(tag, 1, 1, -30); }
        else if (s == "garbage") { ap.manifest_uri = "eph://!!!not-a-manifest"; }
        else if (s == "too_fast") { deliver(node, base(9, make_manifest(9, 1, 1, 3600)), true); }   // accepted; the next one follows within the minimum interval
        try { deliver(node, ap, pow, version); } catch (const std::exception& e) { std::printf("(exception %s)\n", e.what()); }
        if (state_for(node, tag)) { std::printf("REPRODUCED: an inadmissible ANNOUNCE (%s) changed node state (manifest / key shares / provider contact / pending fetch recorded)\n", sc); rc = 1; break; }
    }
    if (rc == 0) std::printf("every inadmissible announce was refused without changing state\n");
    return rc;
}
