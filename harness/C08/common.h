#ifdef CANARY
#define CANARY_POINT() __CPROVER_assert(0, "canary: end of harness reachable")
#else
#define CANARY_POINT()
#endif
