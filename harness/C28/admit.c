/* C28: STORE admission on the control-flow skeleton of handle_client / parse_request / handle_store / handle_fetch with value
   tags: body read only after the declared length was checked against the cap; store_chunk only with the TTL that was found
   inside [min, max], after store_pow_valid accepted (when PoW is enabled) and after the rate limiter admitted the request
   under a key that is the client address unless the configured token was verified. */
#include "ctrl_admit.c"
#include "common.h"
void h_admit(void)
{
  g_token_configured = nondet_bool(); g_token_ok = 0; g_len_checked = 0; g_ttl_var = -1; g_ttl_ge_min = 0; g_ttl_le_max = 0;
  g_pow_required = 0; g_pow_ok = 0; g_rate_ok = 0; g_rate_key = 0;
  skel_daemon__Impl__handle_client();
  CANARY_POINT();
}
