/* C10: the share arithmetic is GF(2^8): tables are powers/logs of the generator 2, gf_mul is the field product,
   gf_div its inverse and division by zero raises invalid_argument */
#ifdef SHAMIR_UNIT_B
#include "shamir_b.c"   /* lowered from contracts/shamir_b.spec: reserve() not modelled (bounded groups) */
#else
#include "shamir.c"
#endif
#include "gf256.h"
#include "common.h"

void h_tables(void)
{
  arr_u8_512 e = crypto__build_exp_table();
  arr_u8_256 l = crypto__build_log_table(&e);
  __CPROVER_assert(e._[0] == 1, "exp[0] = 1");
  for (int i = 0; i < 254; i++) __CPROVER_assert(e._[i + 1] == spec_xtime(e._[i]), "exp[i+1] = 2 * exp[i] in GF(2^8)");
  __CPROVER_assert(spec_xtime(e._[254]) == 1, "generator has order 255");
  for (int i = 255; i < 512; i++) __CPROVER_assert(e._[i] == e._[i - 255], "exp table wraps with period 255");
  for (int i = 0; i < 255; i++) __CPROVER_assert(l._[e._[i]] == i, "log is the inverse of exp");
  for (int v = 1; v < 256; v++) __CPROVER_assert(e._[l._[v]] == v, "every non-zero element is a power of the generator");
  CANARY_POINT();
}

void h_mul(void)
{
  arr_u8_512 e = crypto__build_exp_table();
  arr_u8_256 l = crypto__build_log_table(&e);
  uint8_t in_a, in_b;
  uint8_t r = crypto__gf_mul(in_a, in_b, &e, &l);
  __CPROVER_assert(r == spec_gf_mul(in_a, in_b), "gf_mul == carry-less product mod 0x11D");
  __CPROVER_assert(crypto__gf_add(in_a, in_b) == (uint8_t)(in_a ^ in_b), "gf_add == xor");
  CANARY_POINT();
}

void h_div(void)
{
  arr_u8_512 e = crypto__build_exp_table();
  arr_u8_256 l = crypto__build_log_table(&e);
  uint8_t in_a, in_b;
  __exc = 0;
  uint8_t q = crypto__gf_div(in_a, in_b, &e, &l);
  if (in_b == 0) __CPROVER_assert(__exc == EXC_invalid_argument, "division by zero raises invalid_argument");
  else {
    __CPROVER_assert(__exc == 0, "no exception for a non-zero divisor");
    __CPROVER_assert(spec_gf_mul(q, in_b) == in_a, "gf_div is the inverse of multiplication");
  }
  CANARY_POINT();
}

/* field axioms of the specification product itself (so that "genuine field" does not rest on the tables) */
void h_field(void)
{
  uint8_t a, b;
  __CPROVER_assert(spec_gf_mul(a, b) == spec_gf_mul(b, a), "commutative");
  __CPROVER_assert(spec_gf_mul(a, 1) == a, "identity");
  __CPROVER_assert((a == 0 || b == 0) == (spec_gf_mul(a, b) == 0), "no zero divisors");
  CANARY_POINT();
}

/* split terminates and yields n shares with indices 1..n (threshold 1 keeps the polynomial part trivial; the share-index
   loop does not depend on the threshold) */
void h_split_indices(void)
{
  arr_u8_32 in_secret; uint8_t in_n;
  __CPROVER_assume(in_n >= 1);
#ifdef N_MIN
  __CPROVER_assume(in_n >= N_MIN);
#endif
#ifdef N_MAX
  __CPROVER_assume(in_n <= N_MAX);
#endif
  __exc = 0;
  vec_crypto__ShamirShare r = crypto__Shamir__split(&in_secret, 1, in_n);
  __CPROVER_assert(__exc == 0, "split does not throw for 1 <= t <= n");
  __CPROVER_assert(r.n == in_n, "split yields n shares");
  uint64_t g; __CPROVER_assume(g < r.n);
  __CPROVER_assert(r.p[g].index == g + 1, "share g has the non-zero, distinct index g+1");
  __CPROVER_assert(r.p[g].value._[0] == in_secret._[0], "with threshold 1 every share equals the secret");
  CANARY_POINT();
}

/* split under its function contract + loop contracts: for EVERY 32-byte secret, threshold and share count (0..255 each) */
void h_split_contract(void)
{
  arr_u8_32 in_secret; uint8_t in_t, in_n;
  __exc = 0;
  vec_crypto__ShamirShare r = crypto__Shamir__split(&in_secret, in_t, in_n);
  CANARY_POINT();
}
