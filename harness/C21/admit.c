/* C21 / C03 / C11: admission typestate on the tagged control-flow skeleton of Node::handle_announce (mode 1),
   Node::receive_chunk (mode 2) and Node::ingest_manifest (mode 3): the manifest cache, key-share records, provider contacts,
   scheduled fetches, replica storage and announcements are written only after EVERY admission check of the entry point
   succeeded, and derived lifetimes are the manifest-derived TTL. */
#include "node_admit.c"
#include "common.h"
static void reset(int mode)
{
  g_mode = mode; __skel_exc = 0; __skel_ret = 0;
  g_not_locked = 0; g_self_named = 0; g_pow_ok = 0; g_throttle_ok = 0; g_decoded = 0; g_chunk_match = 0; g_shards_ok = 0; g_ttl_ok = 0; g_hash_ok = 0;
}
void h_announce(void) { reset(1); skel_Node__handle_announce(); CANARY_POINT(); }
void h_receive(void) { reset(2); skel_Node__receive_chunk(); CANARY_POINT(); }
void h_ingest(void) { reset(3); skel_Node__ingest_manifest(); CANARY_POINT(); }
