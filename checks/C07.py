from vdriver import Group
META = {'level': 'other'}
def groups(tier):
    return [Group('index.msb', 'kad_index', 'C07/index.c', entry='h_bucket_index', enforce='KademliaTable__bucket_index_for',
                  unwind=257, kind='constant-unwind', bound='32 id bytes / 256 bits', timeout=600,
                  clause='bucket index == index of the highest bit differing from the local id, none iff the ids are equal (all 2^512 pairs)'),
            Group('distance.xor', 'kad_index', 'C07/index.c', entry='h_xor_distance', enforce='KademliaTable__xor_distance',
                  unwind=33, kind='constant-unwind', bound='32 id bytes',
                  clause='xor_distance is the bytewise XOR'),
            Group('distance.order', 'kad_index', 'C07/index.c', entry='h_order', unwind=33, kind='constant-unwind', bound='32 bytes',
                  clause='the order used on distances is the numeric order of 256-bit values')]
