from vdriver import Group
META = {'level': 'other'}
def groups(tier):
    K = dict(unit='fetch_slots', harness='C24/inflight.c', unwind=3, kind='skeleton', checks=[], skeleton=True, timeout=600, backend=['sat', 'cadical'],
             replay='reannounce', bound='control-flow skeleton (E3) with the in_flight facet; loops unrolled twice')
    return [Group('schedule.inflight', entry='h_schedule', clause='schedule_assigned_fetch clears in_flight only after releasing the peer slot', **K),
            Group('dispatch.inflight', entry='h_dispatch', clause='dispatch_pending_fetch sets in_flight exactly when it took a peer slot', **K),
            # (a contract for schedule_next_fetch_attempt's back-off arithmetic exists in contracts/backoff.spec; the product of two symbolic
            #  64-bit values is not decided by cvc5 / z3 / SAT within 4 minutes, so it is not part of the check)
            Group('clear.inflight', entry='h_clear', clause='clear_pending_fetch forgets a fetch only after releasing the slot it holds', **K)]


def replay(group, trace):
    """the REAL Node: an in-flight pending fetch is re-announced"""
    import sys, os
    root = os.path.dirname(os.path.dirname(os.path.abspath(__file__)))
    sys.path.insert(0, os.path.join(root, 'replay'))
    import replaylib as R
    exe = R.build_full('C24.cpp', with_daemon=False, exclude=['src/core/Node.cpp'])
    rc, out = R.run(exe, [], timeout=60)
    last = [l for l in out.strip().splitlines() if l.strip()][-1:] or ['']
    return rc == 1, last[0][:400]
