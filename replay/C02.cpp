// native replay for C02 (store path): the REAL Node::store_chunk for requested TTLs 0, negative, tiny, inside, huge under
// several (unsanitised) configurations: every lifetime created must lie in the node's sanitised [min, max] window.
#include "ephemeralnet/core/Node.hpp"
#include <cstdio>
#include <cstdlib>
using namespace ephemeralnet;
using namespace std::chrono;
int main() {
    struct Cfg { long min, max, def; } cfgs[] = {{30, 3600, 600}, {1, 86400, 3600}, {60, 10, 5}, {0, 0, 0}, {120, 120, 120}, {5, 200000, 100000}};
    const long ttls[] = {0, -7, 1, 29, 30, 31, 119, 120, 599, 3600, 86400, 90000, 1L << 40};
    int bad = 0, n = 0;
    for (const auto& c : cfgs) {
        Config config{};
        config.min_manifest_ttl = seconds(c.min); config.max_manifest_ttl = seconds(c.max); config.default_chunk_ttl = seconds(c.def);
        config.identity_seed = 3u;
        PeerId id{}; id[0] = 0x02;
        Node node(id, config);
        const long lo = node.config().min_manifest_ttl.count(), hi = node.config().max_manifest_ttl.count();
        if (!(1 <= lo && lo <= hi && hi <= 86400)) { std::printf("REPRODUCED: sanitised window [%ld,%ld] malformed\n", lo, hi); return 1; }
        for (const long t : ttls) {
            ChunkId chunk{}; chunk[0] = static_cast<std::uint8_t>(++n); chunk[1] = static_cast<std::uint8_t>(n >> 8);
            const auto s0 = steady_clock::now(); const auto w0 = system_clock::now();
            const auto manifest = node.store_chunk(chunk, ChunkData{1, 2, 3}, seconds(t), std::nullopt);
            auto check = [&](const char* what, double life) {
                if (life < lo - 2.0 || life > hi + 2.0) {
                    std::printf("REPRODUCED: %s lives %.0f s, outside the window [%ld, %ld] (requested ttl %ld, config min=%ld max=%ld default=%ld)\n", what, life, lo, hi, t, c.min, c.max, c.def);
                    ++bad;
                }
            };
            check("manifest expiry", duration<double>(manifest.expires_at - w0).count());
            for (const auto& e : node.stored_chunks()) if (e.id == chunk) check("chunk record", duration<double>(e.expires_at - s0).count());
            const auto key = chunk_id_to_string(chunk);
            if (const auto it = node.dht_.shard_table_.find(key); it != node.dht_.shard_table_.end()) check("shard record", duration<double>(it->second.expires_at - s0).count());
            else { std::printf("REPRODUCED: no shard record created\n"); ++bad; }
            bool announced = false;
            if (const auto it = node.dht_.table_.find(key); it != node.dht_.table_.end())
                for (const auto& h : it->second.holders) if (h.id == id) { announced = true; check("self-announcement", duration<double>(h.expires_at - s0).count()); }
            if (!announced) { std::printf("REPRODUCED: no self-announcement created\n"); ++bad; }
            if (bad) return 1;
        }
    }
    std::printf("all %d stores: every lifetime inside the sanitised window\n", n);
    return 0;
}
