// native replay for C14: two REAL Nodes over loopback (handshakes done, b connected to a).
//   send : b sends 1 MiB + 1 bytes -> refused and nothing delivered; then 1 MiB exactly and two small payloads -> delivered once each,
//          byte-for-byte, in send order
//   recv : a frame header announcing 1 MiB + 1 bytes is written on b's session socket (with the real send_all) -> a must end the session
//          instead of waiting for / buffering the announced bytes
// exit 1 = the property is violated on the real code.
#include "ephemeralnet/core/Node.hpp"
#include <atomic>
#include <csignal>
#include <chrono>
#include <cstdio>
#include <mutex>
#include <string>
#include <thread>
#include <vector>
using namespace ephemeralnet;
using namespace std::chrono_literals;
static PeerId mk(std::uint8_t s) { PeerId id{}; for (auto& b : id) b = s++; return id; }
int main(int argc, char** argv) {
    const std::string scn = argc > 1 ? argv[1] : "send";
    std::signal(SIGPIPE, SIG_IGN);
    Config ca{}; ca.identity_seed = 0x10u; ca.handshake_cooldown = 1s; Config cb = ca; cb.identity_seed = 0x20u;
    Node a{mk(0x01), ca}, b{mk(0x81), cb};
    a.start_transport(0); b.start_transport(0);
    auto done = [&](int rc) { a.stop_transport(); b.stop_transport(); return rc; };
    const auto pow_b = b.generate_handshake_work(a.id()), pow_a = a.generate_handshake_work(b.id());
    if (!pow_a || !pow_b || !a.perform_handshake(b.id(), b.public_identity(), *pow_b) || !b.perform_handshake(a.id(), a.public_identity(), *pow_a)) { std::printf("setup: handshake failed\n"); return done(2); }
    std::mutex mu; std::vector<std::vector<std::uint8_t>> got;
    a.set_message_handler([&](const network::TransportMessage& m) { std::scoped_lock l(mu); got.push_back(m.payload); });
    std::this_thread::sleep_for(50ms);
    if (!b.connect_peer(a.id(), "127.0.0.1", a.transport_port())) { std::printf("setup: connect failed\n"); return done(2); }
    std::this_thread::sleep_for(100ms);
    if (scn == "send") {
        std::vector<std::uint8_t> big(1024 * 1024 + 1, 0x5A), full(1024 * 1024), s1{'A', 'B'}, s2{'C'};
        for (std::size_t i = 0; i < full.size(); ++i) full[i] = static_cast<std::uint8_t>(i * 31 + 7);
        if (b.send_secure(a.id(), big)) { std::printf("REPRODUCED: a payload of 1 MiB + 1 bytes was sent\n"); return done(1); }
        std::this_thread::sleep_for(300ms);
        if (!a.sessions_.is_connected(b.id())) { std::printf("REPRODUCED: the refused 1 MiB + 1 payload still put a frame on the wire (the receiver ended the session because of it)\n"); return done(1); }
        if (!b.send_secure(a.id(), full) || !b.send_secure(a.id(), s1) || !b.send_secure(a.id(), s2)) { std::printf("REPRODUCED: a payload within the limit was not sent\n"); return done(1); }
        for (int i = 0; i < 60; ++i) { { std::scoped_lock l(mu); if (got.size() >= 3) break; } std::this_thread::sleep_for(50ms); }
        std::scoped_lock l(mu);
        if (got.size() != 3 || got[0] != full || got[1] != s1 || got[2] != s2) { std::printf("REPRODUCED: %zu payloads delivered; expected exactly the three sent ones, byte-for-byte and in order\n", got.size()); return done(1); }
        std::printf("size limit and in-order delivery as required\n");
        return done(0);
    }
    if (scn == "recv") {
        auto& sessions = b.sessions_.sessions_;
        if (sessions.empty()) { std::printf("setup: no session\n"); return done(2); }
        const auto sock = sessions.begin()->second->socket;
        std::uint8_t header[16] = {0}; const std::uint32_t len = 1024 * 1024 + 1;
        header[12] = static_cast<std::uint8_t>(len >> 24); header[13] = static_cast<std::uint8_t>(len >> 16); header[14] = static_cast<std::uint8_t>(len >> 8); header[15] = static_cast<std::uint8_t>(len);
        if (!network::SessionManager::send_all(sock, header, sizeof header)) { std::printf("setup: could not write the header\n"); return done(2); }
        bool ended = false;
        for (int i = 0; i < 40 && !ended; ++i) { std::this_thread::sleep_for(50ms); ended = !a.sessions_.is_connected(b.id()); }
        if (!ended) { std::printf("REPRODUCED: a frame announcing 1 MiB + 1 bytes did not end the session: the receiver keeps waiting for (buffering) the oversized payload\n"); return done(1); }
        std::printf("the oversized frame ended the session\n");
        return done(0);
    }
    return done(2);
}
