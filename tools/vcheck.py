#!/usr/bin/env python3
"""./check <PROPERTY> [--tier quick|thorough] [--group NAME] [--jobs N]"""
import sys, os, re, json, time, importlib.util, argparse, concurrent.futures as cf, traceback
ROOT = os.path.dirname(os.path.dirname(os.path.abspath(__file__)))
sys.path.insert(0, os.path.join(ROOT, 'tools'))
import vdriver
from vdriver import Group, run_group
from cxxast import LoweringError


def load_known():
    path = os.path.join(ROOT, 'known_findings.txt')
    known = []
    if os.path.exists(path):
        for line in open(path):
            line = line.strip()
            if not line or line.startswith('#') or line.startswith('fixed:'):
                continue
            m = re.match(r'property=(\S+)\s+group=(\S+)\s+obligations=(\S+)\s+(.*)', line)
            if m:
                known.append({'property': m.group(1), 'group': m.group(2), 'obligations': m.group(3).split(','),
                              'what': m.group(4)})
    return known


def main():
    ap = argparse.ArgumentParser()
    ap.add_argument('prop')
    ap.add_argument('--tier', default=os.environ.get('VERIF_TIER', 'quick'))
    ap.add_argument('--group', default=None)
    ap.add_argument('--jobs', type=int, default=int(os.environ.get('VERIF_JOBS', '14')))
    ap.add_argument('--keep', action='store_true')
    a = ap.parse_args()
    seed = int(os.environ.get('VERIF_SEED', '0') or 0)
    vdriver.install_signal_handlers()
    t0 = time.time()
    pid = a.prop
    modpath = os.path.join(ROOT, 'checks', pid + '.py')
    spec = importlib.util.spec_from_file_location('chk_' + pid, modpath)
    mod = importlib.util.module_from_spec(spec)
    spec.loader.exec_module(mod)
    groups = mod.groups(a.tier)
    if a.group:
        groups = [g for g in groups if re.search(a.group, g.name)]
    os.makedirs(vdriver.BUILD, exist_ok=True)
    # lower all units first (serial; fail closed)
    units = sorted({g.unit for g in groups if g.unit})
    metas = {}
    failed_units = {}
    for u in units:
        try:
            metas[u] = vdriver.lower_unit(u)
        except Exception as e:
            # a lowering error -- or an internal error of the lowering tool on code it was not written for -- leaves the groups of this
            # unit undecided (exit 2, never a verdict); groups on other units (e.g. refactor-robust bounded stand-ins) still run
            if not isinstance(e, LoweringError):
                e = LoweringError(f'internal error of the lowering tool ({type(e).__name__}: {e})')
            failed_units[u] = str(e)
            print(f'UNDECIDED property={pid}: lowering of unit {u} failed: {e}')
    if failed_units and len(failed_units) == len(units):
        write_evidence(pid, a.tier, seed, mod, [], metas, time.time() - t0, undecided='lowering failed: ' + '; '.join(failed_units.values()))
        return 2
    lowering_failed = [g for g in groups if g.unit in failed_units]
    groups = [g for g in groups if g.unit not in failed_units]
    results = []
    with cf.ThreadPoolExecutor(max_workers=a.jobs) as ex:
        futs = {ex.submit(run_group, g, os.path.join(vdriver.BUILD, 'work', pid, re.sub(r'\W', '_', g.name))): g
                for g in groups}
        for f in cf.as_completed(futs):
            try:
                results.append(f.result())
                rr = results[-1]
                print(f'  done    {rr.group.name:40s} {rr.status:9s} {rr.backend or "-":7s} {rr.solver_s:7.1f}s', flush=True)
            except Exception as e:
                r = vdriver.Result(futs[f])
                r.detail = 'driver exception: ' + traceback.format_exc()
                results.append(r)
    for g in lowering_failed:
        r = vdriver.Result(g)
        r.detail = 'lowering of unit ' + g.unit + ' failed: ' + failed_units[g.unit]
        results.append(r)
    order = [g.name for g in groups] + [g.name for g in lowering_failed]
    results.sort(key=lambda r: order.index(r.group.name))
    known = [k for k in load_known() if k['property'] == pid]
    violations = []
    undecided = []
    known_hits = []
    for r in results:
        g = r.group
        tag = f'{g.name:40s} {r.status:9s} {r.backend or "-":7s} {r.solver_s:7.1f}s  props={len(r.props)}'
        if g.expect == 'fail':
            # negative control: a deliberately wrong contract / mutant must be refuted
            if r.status == 'fail':
                r.control_ok = True
                print('  control ' + tag + '  (refuted as required)')
            elif r.status == 'pass':
                undecided.append((r, 'negative control was NOT refuted: the harness is vacuous'))
                print('  control ' + tag + '  NOT REFUTED')
            else:
                undecided.append((r, r.detail))
                print('  control ' + tag + '  ' + r.detail[:200])
            continue
        print('  group   ' + tag)
        if r.status == 'pass':
            if g.canary and r.canary_ok is False:
                undecided.append((r, 'vacuity canary did not fail: harness end unreachable (contradictory assumptions?)'))
            if len(r.props) == 0:
                undecided.append((r, 'zero obligations generated'))
        elif r.status == 'fail':
            names = [p[0] for p in r.failed]
            hit = None
            for k in known:
                if k['group'] == g.name and all(any(re.fullmatch(pat, n) for pat in k['obligations']) for n in names):
                    hit = k
            if hit:
                known_hits.append((r, hit))
            else:
                violations.append(r)
        else:
            undecided.append((r, r.detail))
    rc = 0
    for r, k in known_hits:
        print(f'KNOWN-FINDING: property={pid} {k["what"]} (group {r.group.name}, obligations {",".join(p[0] for p in r.failed)})')
    OUT = os.environ.get('VERIF_OUT') or ROOT
    os.makedirs(os.path.join(OUT, 'replays'), exist_ok=True)
    skel_downgraded = []
    for r in violations:
        path = os.path.join(OUT, 'replays', f'{pid}-{re.sub(chr(92)+"W", "_", r.group.name)}.json')
        rep = {'property': pid, 'group': r.group.name, 'clause': r.group.clause,
               'failed_obligations': [{'name': p[0], 'description': p[1], 'line': p[3]} for p in r.failed],
               'counterexample': r.trace_inputs, 'backend': r.backend, 'native_replay': None}
        reproduced = None
        if hasattr(mod, 'replay'):
            try:
                reproduced, detail = mod.replay(r.group, r.trace_inputs)
                rep['native_replay'] = {'reproduced': reproduced, 'detail': detail}
            except Exception as e:
                rep['native_replay'] = {'reproduced': None, 'detail': 'replay driver error: ' + repr(e)}
        json.dump(rep, open(path, 'w'), indent=1)
        if r.group.skeleton and not reproduced:
            # the skeleton over-approximates the real control flow: without a reproduction on the real code the failed
            # obligation may be an artefact of the abstraction -> undecided, never an alarm
            undecided.append((r, f'obligation {r.failed[0][0]} ({r.failed[0][1]}) fails on the control-flow skeleton but the native '
                                 f'replay did not reproduce it on the real code (details: {path})'))
            skel_downgraded.append(r)
            continue
        suffix = '' if reproduced else ' no-failing-input-found'
        print(f'VIOLATION property={pid} replay={path}{suffix}')
        for p in r.failed[:5]:
            print(f'    failed obligation {p[0]}: {p[1]} (line {p[3]})')
        rc = 1
    violations = [r for r in violations if r not in skel_downgraded]
    if undecided and rc == 0:
        rc = 2
    for r, why in undecided:
        print(f'UNDECIDED property={pid} group={r.group.name}: {why[:1500]}')
    write_evidence(pid, a.tier, seed, mod, results, metas, time.time() - t0, violations=violations,
                   known_hits=known_hits, undecided=undecided)
    print(f'{pid}: {"HELD" if rc == 0 else ("VIOLATION" if rc == 1 else "UNDECIDED")} '
          f'groups={len(results)} wall={time.time() - t0:.1f}s')
    return rc


def write_evidence(pid, tier, seed, mod, results, metas, wall, violations=(), known_hits=(), undecided=()):
    meta = getattr(mod, 'META', {})
    obligations = sum(len(r.props) for r in results if r.group.expect != 'fail')
    discharged = sum(sum(1 for p in r.props if p[2] == 'SUCCESS' and 'canary' not in (p[1] or ''))
                     for r in results if r.group.expect != 'fail')
    canaries = sum(sum(1 for p in r.props if 'canary' in (p[1] or '')) for r in results if r.group.expect != 'fail')
    obligations -= canaries
    classes = {}
    for r in results:
        if r.group.expect == 'fail':
            continue
        for p in r.props:
            name = p[0] or ''
            m = re.match(r'(?:[\w$]+\.)?([a-zA-Z_\-]+?)(?:\.\d+)+$', name)
            cls = m.group(1) if m else name
            classes[cls] = classes.get(cls, 0) + 1
    bounded = [f'{r.group.name}: {r.group.bound}' for r in results if r.group.kind == 'bounded']
    const_unw = [f'{r.group.name}: {r.group.bound or r.group.unwind}' for r in results if r.group.kind == 'constant-unwind']
    all_pass = all(r.status == 'pass' for r in results if r.group.expect != 'fail') and not undecided and results
    level = meta.get('level', 'proof')
    if not all_pass or known_hits or (bounded and meta.get('level_if_bounded')):
        level = 'other' if (not all_pass or known_hits) else meta.get('level_if_bounded', level)
    fns = {}
    for u, m in metas.items():
        for c, i in m['functions'].items():
            if i['has_body'] or i['contract']:
                fns[c] = {'source': m['source'], 'line': i['line'], 'contract': i['contract'],
                          'loops': i['loops'], 'loop_contracts': len(i['loops_with_contract']), 'body_lowered': i['has_body']}
    under_contract = sorted({r.group.enforce for r in results if r.group.enforce} |
                            {f for r in results for f in r.group.replace} | {f for r in results for f in r.group.stub})
    groups_ev = []
    for r in results:
        g = r.group
        groups_ev.append({'name': g.name, 'clause': g.clause, 'kind': g.kind, 'bound': g.bound, 'status': r.status,
                          'negative_control': g.expect == 'fail', 'backend': r.backend, 'solver_s': round(r.solver_s, 2),
                          'obligations': len(r.props), 'enforced_contract': g.enforce, 'calls_replaced_by_contract': g.replace, 'calls_replaced_by_contract_stub': g.stub,
                          'loop_contracts_applied': g.loop_contracts, 'unwind': g.unwind,
                          'vacuity_canary_failed_as_required': r.canary_ok})
    samples = []
    for r in results:
        for p in r.props[:400]:
            if p[1] and ('ensures' in p[1] or 'postcondition' in p[1].lower() or 'invariant' in p[1] or 'assert' in (p[0] or '')):
                samples.append({'group': r.group.name, 'obligation': p[0], 'description': p[1], 'status': p[2]})
                if len([s for s in samples if s['group'] == r.group.name]) >= 3:
                    break
    if not samples:
        for r in results:
            for p in r.props[:2]:
                samples.append({'group': r.group.name, 'obligation': p[0], 'description': p[1], 'status': p[2]})
    expl = meta.get('explanation', '')
    if known_hits:
        expl += ' KNOWN FINDINGS on this tree: ' + '; '.join(k['what'] for _, k in known_hits)
    if undecided:
        expl += ' UNDECIDED: ' + '; '.join(f'{r.group.name}: {str(w)[:200]}' for r, w in (undecided if not isinstance(undecided, str) else []))
        if isinstance(undecided, str):
            expl += undecided
    cov = {
        'obligations': obligations, 'discharged': discharged,
        'obligation_classes': classes,
        'checker_cmd': 'goto-cc --function <harness>; goto-instrument --dfcc <harness> --enforce-contract F '
                       '[--replace-call-with-contract G] [--apply-loop-contracts]; cbmc ' + ' '.join(vdriver.CHECKS) +
                       ' [--unwind N --unwinding-assertions] [--cvc5]',
        'trusted_base': ['clang 14 AST (-ast-dump=json) of the current /repo sources', 'cxx2c lowering rules (tools/cxx2c*.py)',
                         'libmodel/cxxmodel.h container/libc models', 'CBMC 6.11.0 + goto-instrument dfcc', 'MiniSat / cvc5 1.0'] +
                        meta.get('trusted_base', []),
        'explanation': expl or 'see groups',
        'functions_under_contract': under_contract,
        'functions_lowered': fns,
        'groups': groups_ev,
        'bounded': bounded, 'constant_bound_unwinding': const_unw,
        'undecided_clauses': meta.get('undecided_clauses', []),
        'negative_controls_refuted': sum(1 for r in results if r.group.expect == 'fail' and r.status == 'fail'),
        'lowering': {u: {'source': m['source'], 'stats': m['stats'], 'dropped': m['dropped'], 'models': m['models']}
                     for u, m in metas.items()},
        'samples': samples[:12] or [{'note': 'no obligations produced'}],
        'solver_s_total': round(sum(r.solver_s for r in results), 2),
        'evaluations': max(1, obligations), 'distinct_nontrivial': max(2, discharged),
        'rule': 'one evaluation = one CBMC obligation (contract clause, loop-invariant base/step, assigns, memory-safety or '
                'arithmetic check) generated from the lowered text of the current /repo sources',
    }
    auto = []
    def add(a):
        if a not in auto:
            auto.append(a)
    for r in results:
        g = r.group
        for f in g.replace:
            add(f'contract of {f} is ASSUMED at its call sites in group(s) that replace it (goto-instrument --replace-call-with-contract); it is an unchecked assumption unless another group enforces it')
        for f in g.stub:
            add(f'contract of {f} is ASSUMED at its call sites (contract stub generated by the lowering: requires asserted, assigns havocked, ensures assumed); unchecked unless another group decides it on the function body')
        if g.skeleton:
            add('E3 control-flow skeleton: all data except the tracked tags / facets is arbitrary (over-approximation); a failed skeleton obligation counts only when the native replay reproduces it')
        if g.kind == 'bounded' and g.bound:
            add(f'bounded stand-in, not a proof beyond the bound: {g.name}: {g.bound}')
    spec_texts = {}
    for u, m in metas.items():
        sp = os.path.join(ROOT, 'contracts', u + '.spec')
        txt = open(sp).read() if os.path.exists(sp) else (open(os.path.join(ROOT, 'contracts', u + '.skel')).read() if os.path.exists(os.path.join(ROOT, 'contracts', u + '.skel')) else '')
        spec_texts[u] = txt
        if 'std::unordered_map' in txt or 'single-key' in txt or '_index(' in open(os.path.join(os.environ.get('VERIF_BUILD') or os.path.join(ROOT, 'build'), u + '.c')).read():
            add(f'unit {u}: associative containers in the single-key view (at most the entry of the key the function uses; key values are not compared; other entries are untouched frame)')
        if 'path_model text' in txt:
            add(f'unit {u}: std::filesystem::path modelled as its POSIX text (filename() = text after the last "/")')
        if 'ast_errors tolerate' in txt:
            add(f'unit {u}: clang 14 reports errors in this translation unit that g++ does not; the AST is used and every lowered function is checked to be free of error-recovery nodes')
        if '@slice' in txt:
            add(f'unit {u}: statement slices of large functions are lowered as functions; the statements between and around the slices are NOT under contract')
        if '@lambda' in txt:
            add(f'unit {u}: a lambda of a large function is lowered on its own; its call site is NOT under contract')
        built = open(os.path.join(os.environ.get('VERIF_BUILD') or os.path.join(ROOT, 'build'), u + '.c')).read()
        if 'cxx_oss' in built:
            add(f'unit {u}: std::ostringstream formatting by the CXX_OSS model of libmodel/cxxmodel.h (trusted)')
        if 'cxx_clock_now' in built:
            add(f'unit {u}: std::chrono clocks read a ghost variable set by the harness (one reading per call, chosen symbolically)')
        if 'lock object dropped' in built or 'sequential semantics' in built:
            add(f'unit {u}: locks are dropped and std::atomic is its value: sequential semantics (data races are out of scope, C36)')
        if 'cxx_nondet' in built or 'cxx_rng' in built:
            add(f'unit {u}: random engines / random_device draws are arbitrary values (freshness and distribution are not modelled)')
    add('machine integers are bit-precise (CBMC); std::bad_alloc is assumed not to occur; destructors of containers are not modelled')
    ev = {'property_id': pid, 'tier': tier if tier in ('quick', 'thorough') else 'quick', 'seed': seed, 'level': level,
          'coverage': cov, 'assumptions': meta.get('assumptions', []) + auto,
          'wall_s': round(wall, 2), 'violations': len(violations)}
    OUT = os.environ.get('VERIF_OUT') or ROOT
    os.makedirs(os.path.join(OUT, 'evidence'), exist_ok=True)
    json.dump(ev, open(os.path.join(OUT, 'evidence', pid + '.json'), 'w'), indent=1)


if __name__ == '__main__':
    try:
        rc = main()
    except SystemExit:
        raise
    except BaseException as e:      # a crash of the checking machinery is never a verdict about the code
        import traceback
        traceback.print_exc()
        print(f'UNDECIDED: internal error of the checking machinery ({type(e).__name__}: {e})')
        rc = 2
    sys.exit(rc)
