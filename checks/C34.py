from vdriver import Group
META = {'level': 'other'}
def groups(tier):
    U = {'unwind': 24, 'unwind_by': {'network__parse_ipv4#0': 5, 'network__parse_ipv4#1': 5, 'put_quad': 5, 'cxx_rfind0_cstr': 9,
                                     'str_eq_cstr': 11, 'cxx_strlen': 11},
         'defines': ['CXX_VEC_CAP=32', 'CXX_FIXED_STORAGE'],
         'kind': 'constant-unwind', 'bound': 'host text <= 22 characters (every dotted quad / mapped form)', 'timeout': 900,
         'backend': ['cadical', 'sat']}
    return [Group('ipv4.classes', 'advertise', 'C34/classify.c', entry='h_ipv4_classes', enforce='network__is_private_or_reserved_ipv4',
                  clause='is_private_or_reserved_ipv4 == the non-routable classes of the statement, for all 2^32 addresses'),
            Group('ipv4.parse', 'advertise', 'C34/classify.c', entry='h_parse_roundtrip', checks=[],
                  clause='parse_ipv4 reads the canonical text of every IPv4 address back to its octets', **U),
            Group('host.ipv4', 'advertise', 'C34/classify.c', entry='h_host_ipv4',
                  clause='is_private_or_reserved_host(dotted quad) <=> the address is non-routable (through the real parser)', **U),
            Group('host.mapped', 'advertise', 'C34/classify.c', entry='h_host_mapped',
                  clause='is_private_or_reserved_host(::ffff:a.b.c.d) for every non-routable a.b.c.d', **U),
            Group('candidates.transport', 'advertise_flow', 'C34/flow.c', entry='h_transport', unwind=3, kind='skeleton', checks=[], skeleton=True,
                  replay='flow', bound='control-flow skeleton (E3) with variable-identity tags; loops unrolled twice',
                  clause='build_transport_advertise_candidates publishes a host only if private advertising is allowed or the classifier found that host routable'),
            Group('candidates.control', 'advertise_flow', 'C34/flow.c', entry='h_control', unwind=3, kind='skeleton', checks=[], skeleton=True,
                  replay='flow', bound='control-flow skeleton (E3) with variable-identity tags; loops unrolled twice',
                  clause='discover_control_advertise_candidates publishes a host only if private advertising is allowed or the classifier found that host routable'),
            Group('host.names', 'advertise', 'C34/classify.c', entry='h_host_names',
                  clause='localhost / 0.0.0.0 / ::1 / empty host are withheld', **U)]


def replay(group, trace):
    """the REAL classification function on the counterexample's address (dotted quad or ::ffff: mapped form)"""
    import sys, os
    root = os.path.dirname(os.path.dirname(os.path.abspath(__file__)))
    sys.path.insert(0, os.path.join(root, 'replay'))
    import replaylib as R
    if group.replay == 'flow':
        exe = R.build('C34flow.cpp', ['src/network/NatTraversal.cpp'])
        rc, out = R.run(exe, [], timeout=60)
        last = [l for l in out.strip().splitlines() if l.strip()][-1:] or ['']
        return rc == 1, last[0][:400]
    a = (trace or {}).get('assignments', {})
    if 'in_ip._[0]' not in a:
        return None, 'counterexample has no address'
    o = [R.num(a.get(f'in_ip._[{i}]')) for i in range(4)]
    mapped = 1 if group.name == 'host.mapped' else 0
    exe = R.build('C34.cpp', ['src/network/NatTraversal.cpp'])
    rc, out = R.run(exe, o + [mapped, R.num(a.get('in_upper'))])
    return rc == 1, out.strip()[-300:]
