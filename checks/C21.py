from vdriver import Group
META = {'level': 'other'}
def groups(tier):
    T = dict(unit='throttle', harness='C21/thr_steps.c', replace=['peer_id_to_string'], unwind=9, kind='bounded', timeout=900, backend=['cvc5', 'sat', 'cadical'],
             defines=['CXX_VEC_CAP=8', 'CAP=' + ('4' if tier == 'quick' else '6')], bound='history capacity: burst limit <= ' + ('4' if tier == 'quick' else '6') + ' (one step from every state satisfying the invariant; unbounded in the number of steps and in time)')
    return [Group('throttle.register', entry='h_register',
                  clause='register_incoming_announce preserves the history invariant; accepted announces are >= min interval apart and <= burst limit per window; refusals only for those reasons', **T),
            Group('throttle.lockout', entry='h_failure',
                  clause='the third rejection within 120 s locks the peer out for 180 s; active lock-outs are kept; fewer rejections do not lock', **T),
            Group('throttle.locked', entry='h_locked', clause='announce_sender_locked <=> a lock-out deadline in the future', **T),
            Group('announce.admission', 'node_admit', 'C21/admit.c', entry='h_announce', unwind=3, kind='skeleton', checks=[], skeleton=True, replay='announce',
                  bound='control-flow skeleton (E3) with value tags; loops unrolled twice', timeout=900, backend=['sat', 'cadical'],
                  clause='an ANNOUNCE changes node state (cached manifest, key shares, provider contact, scheduled fetch) only if the sender is not '
                         'locked out, names itself, carries valid PoW, passed the throttle, and its manifest decoded, matches the announced chunk, '
                         'meets its threshold and is unexpired'),
            Group('announce.assigned_shards', 'announce_shards', 'C21/shards_valid.c', entry='h_shards_valid', unwind=6, kind='bounded', backend=['sat', 'cadical'], timeout=300,
                  checks=['--bounds-check', '--pointer-check'], replay='foreign_share', bound='at most 3 assigned indices and 4 carried shares, all index values',
                  clause='handle_announce (the declaration of shards_valid, lowered as a slice) admits an announcement exactly when every share index it assigns '
                         'is carried by the announced manifest')]


def replay(group, trace):
    """the REAL Node: baseline announce accepted, then announces that each break ONE admission condition"""
    import sys, os
    if group.replay not in ('announce', 'foreign_share'):
        return None, 'no native replay for this group'
    root = os.path.dirname(os.path.dirname(os.path.abspath(__file__)))
    sys.path.insert(0, os.path.join(root, 'replay'))
    import replaylib as R
    exe = R.build_full('C21.cpp', with_daemon=False, exclude=['src/core/Node.cpp'])
    rc, out = R.run(exe, ['all' if group.replay == 'announce' else group.replay], timeout=180)
    last = [l for l in out.strip().splitlines() if l.strip()][-1:] or ['']
    return rc == 1, last[0][:400]
