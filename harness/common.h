#ifdef CANARY
#define CANARY_POINT() __CPROVER_assert(0, "canary: end of harness reachable")
/* an additional vacuity guard inside the harness entry function: the driver requires EVERY canary of the entry function to be refuted,
   i.e. the guarded path must be reachable on the current tree (otherwise the group is undecided, never "held") */
#define CANARY_AT(what) __CPROVER_assert(0, "canary: reachable: " what)
#else
#define CANARY_POINT()
#define CANARY_AT(what)
#endif
