// native replay for C07 (bucket shape): the REAL KademliaTable.  A contact is registered with a deadline one hour away and then registered
// again (refreshed) with a new address and a deadline one minute away; its own id is registered too.  The table must hold exactly one
// entry for the contact, with the NEWEST address and deadline, and must not hold the node's own id.  exit 1 = violated.
#include "ephemeralnet/dht/KademliaTable.hpp"
#include <cstdio>
using namespace ephemeralnet;
using namespace std::chrono;
int main() {
    PeerId self{}; self[0] = 0x07;
    KademliaTable t(self);
    PeerContact c{}; c.id[0] = 0x87; c.address = "10.0.0.1:1"; c.expires_at = steady_clock::now() + hours(1);
    t.register_peer(c);
    PeerContact again = c; again.address = "10.0.0.2:2"; again.expires_at = steady_clock::now() + seconds(60);
    t.register_peer(again);
    PeerContact me{}; me.id = self; me.address = "127.0.0.1:9"; me.expires_at = steady_clock::now() + hours(1);
    t.register_peer(me);
    const auto all = t.closest_peers(c.id, 64);
    int hits = 0; const PeerContact* found = nullptr;
    for (const auto& e : all) { if (e.id == c.id) { hits++; found = &e; } if (e.id == self) { std::printf("REPRODUCED: the node's own id is held in the routing table\n"); return 1; } }
    if (hits != 1) { std::printf("REPRODUCED: a refreshed contact has %d entries\n", hits); return 1; }
    const double life = duration<double>(found->expires_at - steady_clock::now()).count();
    if (found->address != again.address || life > 65.0) { std::printf("REPRODUCED: a refreshed contact does not carry its newest address and deadline (address %s, %.0f s left; refreshed with %s and 60 s)\n", found->address.c_str(), life, again.address.c_str()); return 1; }
    std::printf("single entry with the newest address and deadline; own id not held\n");
    return 0;
}
